"""C12 -- Gaussian pointwise algebra agrees with the dense quadratic form.

Explorer E-prog over a small language of pointwise Gaussian operations (fv.ref.gauss): every signature
(1-3 real inputs of shapes (), (2,), (2,2) with total dimension <= 5, 0-2 batch inputs of sizes 1-3, every
interleaving, every rank 0 .. 2*dim+1) is built through funsor's public API, every operation of the alphabet is
applied (composed to depth 2 / 3), and the result is evaluated on the unisolvent lattice of its remaining real
inputs and over its whole batch table.  The oracle is function composition on the dense form (P, eta, c).

Evaluation of a result r: real inputs are bound to Tensors (never Python floats) -- once to ground Tensors at a generic
point, once to Tensors that carry all lattice points along a fresh batch input ``_pt`` (one substitution instead of up
to 36; a substitution costs ~1 ms) -- and the resulting Tensor's ``.data`` is read directly in ``.inputs`` order over
the whole batch table.  Both passes must agree with the reference.
"""
import itertools
import traceback
from collections import OrderedDict

import numpy as np

from .. import core
from ..ref import gauss as G
from ..ref.lang import tuplify

ID = "C12"
LEVEL_RULE = (
    "level 0: every signature (ordered real shapes x batch sizes x interleaving x rank 0..2dim+1) as a Gaussian leaf, and "
    "every valid (loc x scale) constructor parametrisation; level 1: every operation variant of the alphabet applied to "
    "every leaf of the tier's level-1 signature pool; level n+1: every operation variant applied to the pruned pool of "
    "level-n terms (first term per (operation label, signature class)); a case is non-trivial when the funsor result "
    "was grounded at every lattice point x batch index and the reference table is not constant; distinct = distinct "
    "term text"
)
ASSUMPTIONS = [
    "numpy backend; default Gaussian.compression_threshold == 2",
    "real parameters from a deterministic well-conditioned generator (Householder factors, singular values in [1,3]) "
    "seeded by VERIF_SEED through lang.generic_fill; structure (signatures, operations) does not depend on the seed",
    "every result of the enumerated operations is a quadratic in its remaining real inputs, so agreement on the "
    "unisolvent lattice {0, h1 e_a, h1 e_a + h2 e_b} decides agreement everywhere (up to rounding)",
    "the reference fv.ref.gauss (dense quadratic form, point-wise composition) is trusted; unit tests in tests/test_c12.py",
    "results are evaluated by substituting Tensors for the real inputs: ground Tensors at one generic point, and the "
    "whole lattice at once as Tensors batched over a fresh input _pt; batch inputs are read from Tensor.data directly",
    "float comparison |a-b| <= 1e-8 + 1e-6|b| (QR / Cholesky inside)",
    "an exception or a result that is still lazy after binding all real inputs is a decline (counted by type)",
]

RTOL, ATOL = 1e-6, 1e-8

SHAPES = ((), (2,), (2, 2))
MAX_DIM = 5
REAL_NAMES = ("x", "y", "z")
BATCH_NAMES = ("i", "j")
FRESH_REAL = ("u", "v", "w", "p", "q", "r")
FRESH_BATCH = ("k", "l", "m", "n")


# ---------------------------------------------------------------------------
# signatures


def real_sigs():
    out = []
    for r in (1, 2, 3):
        for sig in itertools.product(SHAPES, repeat=r):
            if sum(G.numel(s) for s in sig) <= MAX_DIM:
                out.append(sig)
    out.sort(key=lambda s: (len(s), sum(G.numel(x) for x in s), s))
    return out


def batch_sigs(sizes=(1, 2, 3), maxb=2):
    out = [()]
    for b in range(1, maxb + 1):
        out.extend(itertools.product(sizes, repeat=b))
    return out


def layouts(rsig, bsig):
    """Every interleaving of the batch inputs (i, j in order) with the real inputs (x, y, z in order)."""
    r, b = len(rsig), len(bsig)
    out = []
    for pos in itertools.combinations(range(r + b), b):
        ins, ri, bi = [], 0, 0
        for p in range(r + b):
            if p in pos:
                ins.append((BATCH_NAMES[bi], "b", bsig[bi]))
                bi += 1
            else:
                ins.append((REAL_NAMES[ri], "r", rsig[ri]))
                ri += 1
        out.append(tuple(ins))
    return out


def all_ranks(dim):
    return list(range(0, 2 * dim + 2))


def class_ranks(dim):
    """One rank per class: zero, deficient, square, wide, at threshold, over threshold."""
    return sorted({0, 1, max(dim - 1, 0), dim, dim + 1, 2 * dim, 2 * dim + 1})


def few_ranks(dim):
    """deficient (or zero when dim == 1), square, over the compression threshold"""
    return sorted({dim - 1, dim, 2 * dim + 1})


def two_ranks(dim):
    return sorted({max(dim - 1, 1), 2 * dim + 1})


def rank_class(dim, rank):
    if rank == 0:
        return "zero"
    if rank < dim:
        return "deficient"
    if rank == dim:
        return "square"
    if rank <= 2 * dim:
        return "wide"
    return "over-threshold"


def signatures(bsigs, ranks_of, rsigs=None):
    out = []
    for rs in rsigs or real_sigs():
        dim = sum(G.numel(s) for s in rs)
        for bs in bsigs:
            for ins in layouts(rs, bs):
                for k in ranks_of(dim):
                    out.append(("G", 1, ins, k))
    return out


# ---------------------------------------------------------------------------
# the operation alphabet (works on the reference typing only, so it composes to any depth)


def _desc(t):
    return tuple((n, d[0], d[1]) for n, d in t.items())


def _fresh(pool, t, k=1):
    out = [n for n in pool if n not in t]
    return out[:k]


def _slice_menu(s):
    if s == 1:
        return [(0, 1, 1)]
    if s == 2:
        return [(1, 2, 1), (0, 2, 2)]
    return [(1, s, 1), (0, s, 2), (0, s - 1, 1)]


def leaf_rank(e):
    if e[0] == "G":
        return e[3]
    if e[0] == "C":
        return e[5]
    return None


def ops_on(e, mode="full", rich=True):
    """[(label, expr)]: every operation variant applicable to ``e``.

    mode "lite" keeps one or two variants per kind (used for the inner operations of compositions); ``rich`` False
    (quick tier) replaces the two factorially / quadratically large menus by canonical subsets: permutations of 5 names
    -> reversal, rotations, adjacent transpositions; contents of an index tensor into a size-3 input -> 5 patterns."""
    t = G.ty(e)
    ins = _desc(t)
    reals = [(n, d[1]) for n, d in t.items() if d[0] == "r"]
    batch = [(n, d[1]) for n, d in t.items() if d[0] == "b"]
    if not reals:
        return []
    full = mode == "full"
    dim = G.total_dim(ins)
    fr = _fresh(FRESH_REAL, t, 3)
    fb = _fresh(FRESH_BATCH, t, 2)
    u, v = (fr + [None] * 2)[:2]
    k, l = (fb + [None] * 2)[:2]
    out = []
    bdesc = tuple((n, "b", s) for n, s in batch)

    # ---- addition
    out.append(("add:identical", ("add", e, ("G", 2, ins, 1))))
    if len(ins) > 1:
        out.append(("add:permuted", ("add", e, ("G", 3, ins[::-1], dim))))
    shared = ((reals[-1][0], "r", reals[-1][1]),) + bdesc[:1]
    pin = ((u, "r", (2,)),) + shared
    out.append(("add:overlap", ("add", e, ("G", 4, pin, 2))))
    if full:
        out.append(("add:overlap-rev", ("add", ("G", 4, pin, 4), e)))
        if len(ins) > 1:
            out.append(("add:subset", ("add", e, ("G", 5, ((reals[0][0], "r", reals[0][1]),), 1))))
        out.append(("add:disjoint", ("add", e, ("G", 6, ((k, "b", 2), (u, "r", ())), 1))))
        out.append(("add:tensor-rev", ("add", ("T", 2, bdesc), e)))
        out.append(("add:number", ("add", e, ("N", 0.75))))
    out.append(("add:tensor", ("add", e, ("T", 1, bdesc[:1] + ((k, "b", 2),)))))

    # ---- substitution of real values
    def rt(n, shape, binputs):
        return ("rt", 10 + list(t).index(n), binputs, shape)

    bdep = bdesc[:1] + ((k, "b", 2),)
    subsets = [c for r_ in range(1, len(reals) + 1) for c in itertools.combinations(reals, r_)]
    if not full:
        subsets = [subsets[0], subsets[-1]] if len(subsets) > 1 else subsets
    for sub in subsets:
        tag = "all" if len(sub) == len(reals) else "partial"
        out.append(("subs-real:ground-" + tag, ("subs", e, tuple((n, rt(n, s, ())) for n, s in sub))))
        if full or tag == "partial" or len(subsets) == 1:
            out.append(("subs-real:batched-" + tag, ("subs", e, tuple((n, rt(n, s, bdep)) for n, s in sub))))
    if len(reals) >= 2 and full:
        (n0, s0), (n1, s1) = reals[0], reals[1]
        out.append(("subs-real:mixed-batched", ("subs", e, ((n0, rt(n0, s0, ())), (n1, rt(n1, s1, bdep))))))

    # The order-of-pairs and simultaneity variants below do not depend on the rank: in the quick tier (rich False) they
    # are generated for square leaves (rank == dim) and for composed terms only; in thorough for ranks {dim-1, dim, 2dim+1}.
    extra = full and leaf_rank(e) in ((None, dim - 1, dim, 2 * dim + 1) if rich else (None, dim))

    # ---- the same multi-key real substitutions with the pairs in every other order (Subs(e, pairs) directly), and
    #      reached through an enclosing lazy sum whose own input order is the reverse (substitute() hands every child
    #      the pairs in the order of the enclosing term's inputs)
    if extra:
        for sub in [c for c in subsets if len(c) >= 2]:
            tag = "all" if len(sub) == len(reals) else "partial"
            for perm in list(itertools.permutations(sub))[1:]:
                out.append(("subs-real:ordered-ground-" + tag, ("osubs", e, tuple((n, rt(n, s, ())) for n, s in perm))))
                out.append(("subs-real:ordered-batched-" + tag, ("osubs", e, tuple((n, rt(n, s, bdep)) for n, s in perm))))
            lin = ("lin", tuple((n, s, float(2 + j)) for j, (n, s) in enumerate(sub[::-1])))
            lazy = ("add", lin, e)
            out.append(("subs-real:via-lazy-sum-ground-" + tag, ("subs", lazy, tuple((n, rt(n, s, ())) for n, s in sub))))
            if tag == "partial":
                out.append(("subs-real:via-lazy-sum-batched-" + tag, ("subs", lazy, tuple((n, rt(n, s, bdep)) for n, s in sub))))

    # ---- integer index / slice / index tensor for a batch input
    for n, s in batch:
        ks = sorted({0, s - 1}) if full else [s - 1]
        for kk in ks:
            out.append(("subs-int:int", ("subs", e, ((n, ("int", kk)),))))
        menu = _slice_menu(s) if full else _slice_menu(s)[:1]
        for start, stop, step in menu:
            out.append(("subs-int:slice-fresh", ("subs", e, ((n, ("slice", k, start, stop, step, s)),))))
            if full:
                out.append(("subs-int:slice-same", ("subs", e, ((n, ("slice", n, start, stop, step, s)),))))
        if not full:
            contents = [(s - 1, 0)]
        elif rich or s < 3:
            contents = list(itertools.product(range(s), repeat=2))
        else:
            contents = [(0, 1), (2, 1), (0, 0), (2, 2), (1, 1)]
        for c in contents:
            out.append(("subs-int:index-tensor", ("subs", e, ((n, ("idx", ((k, "b", 2),), c)),))))
        others = [(m, sm) for m, sm in batch if m != n]
        for m, sm in others:
            c = tuple((sm - 1 - j) % s for j in range(sm))
            out.append(("subs-int:index-dependent", ("subs", e, ((n, ("idx", ((m, "b", sm),), c)),))))

    # ---- renaming
    for n, s in reals if full else reals[:1]:
        out.append(("rename:real-fresh", ("subs", e, ((n, ("var", u)),))))
    for n, s in batch if full else batch[:1]:
        out.append(("rename:batch-fresh", ("subs", e, ((n, ("var", k)),))))
    for (n0, s0), (n1, s1) in itertools.combinations(reals, 2):
        if s0 == s1:
            out.append(("rename:real-swap", ("subs", e, ((n0, ("var", n1)), (n1, ("var", n0))))))
    for (n0, s0), (n1, s1) in itertools.combinations(batch, 2):
        if s0 == s1:
            out.append(("rename:batch-swap", ("subs", e, ((n0, ("var", n1)), (n1, ("var", n0))))))
    if full and len(reals) > 1:
        out.append(("rename:all-reals", ("subs", e, tuple((n, ("var", f)) for (n, s), f in zip(reals, fr)))))

    # ---- affine substitution
    for ri, (n, s) in enumerate(reals if full else reals[:1]):
        if s == ():
            mvs = [(2,), (1,)] if full else [(2,)]
            gis = [((2,), 0), ((2,), 1)] if full else [((2,), 1)]
        elif len(s) == 1:
            mvs = [(2,), (3,), (1,)] if full else [(3,)]
            gis = [((2,) + s, 0), ((2,) + s, 1)] if full else [((2,) + s, 1)]
        else:
            mvs = [(2,) + s[1:], (1,) + s[1:], (3,) + s[1:]] if full else [(1,) + s[1:]]
            gis = []
        for ys in mvs:
            out.append(("affine:matvec", ("subs", e, ((n, ("matvec", u, ys, 20 + ri, ())),))))
        if full:
            out.append(("affine:matvec-batched", ("subs", e, ((n, ("matvec", u, mvs[0], 30 + ri, bdep)),))))
        for ys, idx in gis:
            out.append(("affine:getitem", ("subs", e, ((n, ("getitem", u, ys, idx)),))))
        out.append(("affine:sum2", ("subs", e, ((n, ("sum2", u, v)),))))
        out.append(("affine:scale", ("subs", e, ((n, ("scale", u)),))))
        if full:
            for m, sm in reals:
                if m != n and sm == s:
                    out.append(("affine:sum2-existing", ("subs", e, ((n, ("sum2", u, m)),))))
                    break
        if full and ri == 0:
            out.append(("affine:scale-self", ("subs", e, ((n, ("scale", n)),))))
            for m, sm in reals:
                if m != n:
                    out.append(("affine:scale-self-and-other", ("subs", e, ((n, ("scale", n)), (m, ("scale", u))))))
                    break
    # ---- simultaneity: input a gets an affine value that mentions the caller's variable named b, while the same
    #      substitution binds b (to a constant, a batched constant, another affine value, a renaming)
    if extra:
        for (a, sa), (b, sb) in itertools.permutations(reals, 2):
            forms = []
            if sa == sb:
                forms += [("scale", b), ("sum2", u, b)]
            if len(sb) == max(len(sa), 1) and sb[1:] == sa[1:]:
                forms.append(("matvec", b, sb, 40, ()))
            if sb == (2,) + sa:
                forms.append(("getitem", b, sb, 1))
            bvals = [("const", rt(b, sb, ())), ("affine", ("scale", v)), ("rename", ("var", v))]
            if rich:
                bvals.append(("const-batched", rt(b, sb, bdep)))
            for form in forms:
                for bl, bv in bvals:
                    out.append(("affine:uses-key-bound-to-" + bl, ("subs", e, ((a, form), (b, bv)))))
                    if rich or bl == "const":
                        # Subs directly, pairs in the order opposite to the inputs (x(**kw) above uses the inputs' order)
                        rev = ((b, bv), (a, form)) if list(t).index(a) < list(t).index(b) else ((a, form), (b, bv))
                        out.append(("affine:uses-key-bound-to-" + bl + "-ordered", ("osubs", e, rev)))

    # ---- short histories: ONE live affine expression object (held by the harness, never rebuilt) substituted
    #      successively into different Gaussians; every result is compared with the dense reference on its own
    if extra:
        a, sa = reals[0]
        rdesc = tuple((n, "r", s) for n, s in reals)
        nb = ("G", 9, rdesc, dim)  # no batch input
        ob = ("G", 10, ((l, "b", 3),) + rdesc, dim)  # another batch input
        kb = ("G", 11, rdesc[:1] + ((k, "b", 2),) + rdesc[1:], max(dim - 1, 1))
        if sa == ():
            hforms = [("scale", u), ("matvec", u, (2,), 20, ()), ("sum2", u, v)]
        elif len(sa) == 1:
            hforms = [("scale", u), ("matvec", u, (3,), 20, ()), ("sum2", u, v)]
        else:
            hforms = [("scale", u), ("matvec", u, (1,) + sa[1:], 20, ())]
        if not rich:
            hforms = hforms[:2]
        for hf in hforms:

            def S(g):
                return ("subs", g, ((a, hf),))

            if batch:
                first = ("subs", e, ((batch[0][0], ("int", 0)),))
                hs = [
                    ("batch-then-none", (S(e), S(nb))),
                    ("none-then-batch", (S(nb), S(e))),
                    ("batch-then-other-batch", (S(e), S(ob))),
                    ("other-batch-then-batch", (S(ob), S(e))),
                    ("batch-then-indexed", (S(e), S(first))),
                    ("three-steps", (S(ob), S(nb), S(e))),
                ]
            else:
                hs = [
                    ("none-then-batch", (S(e), S(ob))),
                    ("batch-then-none", (S(ob), S(e))),
                    ("batch-then-other-batch", (S(kb), S(ob))),
                    ("three-steps", (S(ob), S(e), S(kb))),
                ]
            hs.append(("same-twice", (S(e), S(e))))
            for hl, steps in hs:
                out.append(("history:" + hl, ("hist", steps)))
            for m, sm in reals[1:]:
                if sm == sa:
                    out.append(("history:same-object-two-keys", ("hist", (("subs", e, ((a, hf), (m, hf))),))))
                    break

    if len(reals) >= 2:
        (n0, s0), (n1, s1) = reals[0], reals[1]
        if s0 == s1 and full:
            out.append(("affine:two-shared", ("subs", e, ((n0, ("sum2", u, v)), (n1, ("scale", u))))))
        mixed = [(n0, ("scale", u)), (n1, rt(n1, s1, ()))]
        if batch:
            mixed.append((batch[0][0], ("int", batch[0][1] - 1)))
        out.append(("subs:mixed-affine-real-int", ("subs", e, tuple(mixed))))
        if full:
            mixed2 = [(n0, ("var", u)), (n1, rt(n1, s1, bdep))]
            if batch:
                mixed2.append((batch[-1][0], ("slice", l, 0, batch[-1][1], 1, batch[-1][1])))
            out.append(("subs:mixed-var-real-slice", ("subs", e, tuple(mixed2))))

    # ---- align
    names = list(t)
    if len(names) > 1:
        if full:
            if rich or len(names) <= 4:
                perms = [p for p in itertools.permutations(names) if list(p) != names]
            else:
                nn = len(names)
                perms = [tuple(names[::-1])]
                perms += [tuple(names[i:] + names[:i]) for i in range(1, nn)]
                perms += [tuple(names[:i] + [names[i + 1], names[i]] + names[i + 2 :]) for i in range(nn - 1)]
                perms = sorted(set(perms), key=perms.index)
            partial = [(n,) for n in names[1:]]
        else:
            perms = [tuple(names[::-1])]
            partial = [(names[-1],)]
        for p in perms:
            out.append(("align:permutation", ("align", e, tuple(p))))
        for p in partial:
            out.append(("align:partial", ("align", e, tuple(p))))

    # ---- rank compression
    out.append(("compress", ("compress", e)))

    # ---- concatenation along a batch input
    kr = leaf_rank(e)
    for n, s in batch if full else batch[:1]:
        if kr is None:
            ranks = [("other", 1), ("other", dim + 1)] if full else [("other", dim + 1)]
        else:
            ranks = [("equal-rank", kr), ("larger-rank", kr + 1)]
            if kr >= 1:
                ranks.append(("smaller-rank", kr - 1))
            if not full:
                ranks = ranks[1:2]
        for rl, pr in ranks:
            p = ("G", 7, ins, pr)
            out.append(("cat:" + rl, ("cat", n, n, (e, p))))
            if rl in ("larger-rank", "other"):  # (equal, equal) is symmetric; (smaller, larger) is covered by this one
                out.append(("cat:" + rl + "-rev", ("cat", n, n, (p, e))))
            if full and rl != "smaller-rank":
                out.append(("cat:" + rl + "-newname", ("cat", k, n, (e, p))))
        if full:
            pr = kr if kr is not None else dim
            # part with another size of the concatenated input, other input order
            other = tuple((m, kd, (3 - d if d < 3 else 1) if m == n else d) for m, kd, d in ins[::-1])
            out.append(("cat:other-size-permuted", ("cat", n, n, (e, ("G", 8, other, pr + 1)))))
            out.append(("cat:three-parts", ("cat", n, n, (e, ("G", 7, ins, pr + 2), ("G", 8, other, pr)))))
        mix = ("add", ("G", 7, ins, (kr + 1) if kr is not None else dim + 1), ("T", 3, bdesc))
        out.append(("cat:mixture-part", ("cat", n, n, (e, mix))))
        if full:
            out.append(("cat:mixture-part-rev", ("cat", n, n, (mix, e))))
            mix2 = ("add", ("T", 4, bdesc[:1]), e)
            if e[0] in ("G", "C"):
                out.append(("cat:both-mixtures", ("cat", n, n, (mix2, mix))))
    return out


def constructor_cases(bsigs, rank_fn):
    out = []
    for rs in real_sigs():
        dim = sum(G.numel(s) for s in rs)
        for bs in bsigs:
            for ins in layouts(rs, bs):
                for loc in G.LOCS:
                    for scale in G.SCALES:
                        ranks = rank_fn(dim) if scale == "prec_sqrt" else [dim]
                        for k in ranks:
                            if G.valid_parametrisation(loc, scale, dim, k) and not (loc, scale) == ("white_vec", "prec_sqrt"):
                                out.append(("C", 1, ins, loc, scale, k))
    return out


# ---------------------------------------------------------------------------
# pools per tier


def sig_class(e):
    t = G.ty(e)
    reals = tuple(d[1] for d in t.values() if d[0] == "r")
    batch = tuple(d[1] for d in t.values() if d[0] == "b")
    return (reals, batch)


def _prune(items, per=1):
    """first ``per`` terms per (label, sorted real shapes, number of batch inputs)."""
    seen, out = {}, []
    for label, e in items:
        if e[0] == "hist":  # histories are terminal: they are not operands of further operations
            continue
        reals, batch = sig_class(e)
        key = (label, tuple(sorted(reals)), len(batch))
        if seen.get(key, 0) < per:
            seen[key] = seen.get(key, 0) + 1
            out.append((label, e))
    return out


def family(label):
    f = label.split(":")[0]
    return "affine" if f == "subs" else f


_Q4 = [(), (2,), (1,), (2, 3)]
_T10 = [(), (1,), (2,), (3,), (2, 3), (2, 2), (1, 2), (3, 1)]
POOLS = {
    "quick": {
        "level0_batch": batch_sigs(),
        "constructor_batch": [(), (2,), (1,), (2, 3)],
        # level 1: per operation family, the batch signatures and ranks of the leaves it is applied to
        "level1": {
            "add": (_Q4, "few"),
            "subs-real": (_Q4, "few"),
            "subs-int": ([(2,), (1,), (3,), (2, 3), (2, 2)], "two"),
            "rename": ([(), (2,), (2, 2), (2, 3)], "few"),
            "affine": ([(), (2,), (2, 3)], "few"),
            "history": ([(), (2,), (2, 3)], "few"),
            "align": ([(), (2,), (2, 2), (2, 3)], "two"),
            "compress": ([(), (2,), (1,), (2, 3), (3, 2)], "all"),
            "cat": ([(2,), (1,), (1, 2), (2, 3)], "few"),
        },
        "rich": False,
        "level2_rsigs": [((),), ((2,),), ((), ()), ((), (2,)), ((2,), ())],
        "level2_batch": [(), (2,), (2, 2)],
        "depth": 2,
    },
    "thorough": {
        "level0_batch": batch_sigs(),
        "constructor_batch": batch_sigs(),
        "level1": {
            "add": (_T10, "class"),
            "subs-real": (_T10, "class"),
            "subs-int": (_T10[1:], "class"),
            "rename": (_T10, "class"),
            "affine": ([(), (1,), (2,), (2, 3), (2, 2), (3, 1)], "class"),
            "history": ([(), (1,), (2,), (2, 3), (2, 2)], "few"),
            "align": ([(), (2,), (3,), (2, 2), (2, 3)], "few"),
            "compress": (batch_sigs(), "all"),
            "cat": (_T10[1:], "class"),
        },
        "rich": True,
        "level2_rsigs": [((),), ((2,),), ((2, 2),), ((), ()), ((), (2,)), ((2,), ()), ((2,), (2,)), ((), (), ())],
        "level2_batch": [(), (2,), (3,), (2, 2), (2, 3)],
        "depth": 3,
    },
}

_RANKS = {"all": all_ranks, "class": class_ranks, "few": few_ranks, "two": two_ranks}


def _level2_leaves(cfg):
    out = []
    for rs in cfg["level2_rsigs"]:
        dim = sum(G.numel(s) for s in rs)
        for bs in cfg["level2_batch"]:
            lay = layouts(rs, bs)
            # first, last and a middle interleaving
            pick = sorted({0, len(lay) // 2, len(lay) - 1})
            for i in pick:
                for k in two_ranks(dim):
                    out.append(("G", 1, lay[i], k))
    return out


_CASES = {}


def cases(tier):
    if tier not in _CASES:
        _CASES[tier] = _cases(tier)
    return _CASES[tier]


def _cases(tier):
    cfg = POOLS[tier]
    out = []
    for e in signatures(cfg["level0_batch"], all_ranks):
        out.append(["leaf", 0, e])
    for e in constructor_cases(cfg["constructor_batch"], all_ranks):
        out.append(["constructor:%s+%s" % (e[3], e[4]), 0, e])
    for fam, (bsigs, rk) in cfg["level1"].items():
        for e in signatures(bsigs, _RANKS[rk]):
            for label, e1 in ops_on(e, "full", cfg["rich"]):
                if family(label) == fam:
                    out.append([label, 1, e1])
    # deeper levels over the pruned pool
    leaves = _level2_leaves(cfg)
    level = []
    for e in leaves:
        level.extend(ops_on(e, "lite"))
    for e in constructor_cases([(), (2,)], few_ranks):
        if sig_class(e)[0] in cfg["level2_rsigs"]:
            level.append(("constructor:%s+%s" % (e[3], e[4]), e))
    level = _prune(level, per=2 if tier == "thorough" else 1)
    for depth in range(2, cfg["depth"] + 1):
        nxt = []
        last = depth == cfg["depth"]
        for l1, e1 in level:
            for l2, e2 in ops_on(e1, "full" if (last and depth == 2) else "lite", False):
                nxt.append((l1 + " > " + l2, e2))
        for label, e2 in nxt:
            out.append([label, depth, e2])
        level = _prune(nxt, per=1)
    # histories that do not involve the operand itself repeat across operands: keep the first of each
    seen, uniq = set(), []
    for c in out:
        if c[2][0] == "hist":
            if c[2] in seen:
                continue
            seen.add(c[2])
        uniq.append(c)
    return uniq


def bounds(tier):
    cfg = POOLS[tier]
    cs = cases(tier)
    per_level = {}
    for label, depth, e in cs:
        per_level[depth] = per_level.get(depth, 0) + 1
    return {
        "real_shapes": [list(s) for s in SHAPES],
        "max_total_dim": MAX_DIM,
        "ordered_real_signatures": len(real_sigs()),
        "batch_sizes": [1, 2, 3],
        "level0": "all %d signatures: every interleaving, every rank 0..2*dim+1" % len(signatures(cfg["level0_batch"], all_ranks)),
        "constructor_batch_sigs": [list(b) for b in cfg["constructor_batch"]],
        "level1_pool_per_family": {f: {"batch_sigs": [list(b) for b in bs], "ranks": rk} for f, (bs, rk) in cfg["level1"].items()},
        "rank_sets": "all = 0..2dim+1; class = {0,1,dim-1,dim,dim+1,2dim,2dim+1}; few = {dim-1,dim,2dim+1}; two = {max(dim-1,1),2dim+1}",
        "rich_menus": cfg["rich"],
        "deeper_levels_real_signatures": [[list(s) for s in rs] for rs in cfg["level2_rsigs"]],
        "deeper_levels_batch_sigs": [list(b) for b in cfg["level2_batch"]],
        "depth": cfg["depth"],
        "cases_per_depth": per_level,
        "pruning": "deeper levels: first term per (operation-label path, sorted real shapes, number of batch inputs)",
        "lattice": "1 + n + n(n+1)/2 points for n flattened real coordinates, times the whole batch table",
    }


def describe(case):
    label, depth, e = case[0], case[1], tuplify(case[2])
    return "%s :: %s" % (label, short(e))


def short(e):
    tag = e[0]
    if tag == "G":
        return "G%d[%s|rank %d]" % (e[1], ",".join("%s:%s" % (n, d) for n, k, d in e[2]), e[3])
    if tag == "C":
        return "C[%s|%s+%s rank %d]" % (",".join("%s:%s" % (n, d) for n, k, d in e[2]), e[3], e[4], e[5])
    if tag == "T":
        return "T[%s]" % ",".join("%s:%s" % (n, d) for n, k, d in e[2])
    if tag == "N":
        return str(e[1])
    if tag == "add":
        return "(%s + %s)" % (short(e[1]), short(e[2]))
    if tag == "hist":
        return "history[" + "  THEN  ".join(short(x) for x in e[1]) + "]"
    if tag == "lin":
        return "(" + " + ".join("%g*%s" % (c, n) for n, sh, c in e[1]) + ")"
    if tag == "subs":
        return "%s(%s)" % (short(e[1]), ", ".join("%s=%s" % (n, v[0] + str(list(v[1:]))) for n, v in e[2]))
    if tag == "osubs":
        return "Subs(%s, [%s])" % (short(e[1]), ", ".join("%s=%s" % (n, v[0] + str(list(v[1:]))) for n, v in e[2]))
    if tag == "align":
        return "%s.align(%s)" % (short(e[1]), ",".join(e[2]))
    if tag == "compress":
        return "compress(%s)" % short(e[1])
    if tag == "cat":
        return "Cat(%s<-%s, [%s])" % (e[1], e[2], "; ".join(short(p) for p in e[3]))
    return str(e)


# ---------------------------------------------------------------------------
# construction through funsor's public API


def _dom(d):
    from funsor.domains import Bint, Reals

    return Bint[d[1]] if d[0] == "b" else Reals[tuple(d[1])]


def _fin(inputs):
    return OrderedDict((n, _dom((k, d))) for n, k, d in inputs)


_HELD = None  # during a "hist" case: {(value descriptor, domain): the ONE live funsor object of that affine expression}


def build_value(val, target_dom, seed):
    if _HELD is not None and val[0] in _AFFINE:
        key = (val, target_dom)
        if key not in _HELD:
            _HELD[key] = _build_value(val, target_dom, seed)
        return _HELD[key]
    return _build_value(val, target_dom, seed)


def _build_value(val, target_dom, seed):
    from funsor.domains import Reals
    from funsor.tensor import Tensor
    from funsor.terms import Slice, Variable

    k = val[0]
    if k == "rt":
        return Tensor(G.tensor_data(val[1], val[2], val[3], seed), _fin(val[2]))
    if k == "int":
        return int(val[1])
    if k == "slice":
        _, new, start, stop, step, size = val
        return Slice(new, start, stop, step, size)
    if k == "idx":
        return Tensor(G.index_contents(val[1], val[2]), _fin(val[1]), target_dom[1])
    if k == "var":
        return Variable(val[1], _dom(target_dom))
    if k == "matvec":
        _, y, yshape, aid, binputs = val
        A, b = G.matvec_data(aid, binputs, target_dom[1], yshape, seed)
        return Tensor(A, _fin(binputs)) @ Variable(y, Reals[tuple(yshape)]) + Tensor(b, _fin(binputs))
    if k == "getitem":
        return Variable(val[1], Reals[tuple(val[2])])[val[3]]
    if k == "sum2":
        return Variable(val[1], _dom(target_dom)) + Variable(val[2], _dom(target_dom))
    if k == "scale":
        return 2.0 * Variable(val[1], _dom(target_dom)) - 1.0
    raise ValueError(k)


def build(e, seed):
    from funsor.gaussian import Gaussian
    from funsor.interpretations import compress_gaussians
    from funsor.interpreter import reinterpret
    from funsor.tensor import Tensor
    from funsor.terms import Cat, Number

    tag = e[0]
    if tag == "G":
        w, s = G.sqrt_params(e[1], e[2], e[3], seed)
        return Gaussian(w, s, _fin(e[2]))
    if tag == "C":
        kw, _ = G.constructor_args(e[1], e[2], e[3], e[4], e[5], seed)
        return Gaussian(inputs=_fin(e[2]), **kw)
    if tag == "T":
        return Tensor(G.tensor_data(e[1], e[2], (), seed), _fin(e[2]))
    if tag == "N":
        return Number(float(e[1]))
    if tag == "lin":
        from funsor.domains import Reals
        from funsor.terms import Variable

        total = None
        for n, shape, coef in e[1]:
            v = Variable(n, Reals[tuple(shape)])
            term = float(coef) * (v.sum() if shape else v)
            total = term if total is None else total + term
        return total
    if tag == "add":
        return build(e[1], seed) + build(e[2], seed)
    if tag == "subs":
        inner = G.ty(e[1])
        x = build(e[1], seed)
        subs = {n: build_value(val, inner[n], seed) for n, val in e[2] if n in inner}
        return x(**subs)
    if tag == "osubs":
        from funsor.terms import Subs

        inner = G.ty(e[1])
        x = build(e[1], seed)
        return Subs(x, tuple((n, build_value(val, inner[n], seed)) for n, val in e[2] if n in inner))
    if tag == "align":
        return build(e[1], seed).align(tuple(e[2]))
    if tag == "compress":
        x = build(e[1], seed)
        with compress_gaussians:
            return reinterpret(x)
    if tag == "cat":
        return Cat(e[1], tuple(build(p, seed) for p in e[3]), e[2])
    raise ValueError(tag)


# ---------------------------------------------------------------------------
# stand-alone snippet

SNIPPET_HEADER = """import numpy as np
from collections import OrderedDict
import funsor
from funsor import Bint, Real, Reals, Tensor, Number, Variable
from funsor.gaussian import Gaussian
from funsor.terms import Cat, Slice, Subs
from funsor.interpretations import compress_gaussians
from funsor.interpreter import reinterpret
funsor.set_backend("numpy")
A = lambda data, *shape: np.array(data, dtype=np.float64).reshape(shape)
"""


def _arr(a):
    a = np.asarray(a)
    return "A(%r, %s)" % (a.reshape(-1).tolist(), ", ".join(map(str, a.shape)) + ("," if a.ndim == 1 else "")) if a.ndim else "A(%r)" % float(a)


def _domcode(d):
    if d[0] == "b":
        return "Bint[%d]" % d[1]
    return "Reals[%s]" % (", ".join(map(str, d[1])) if d[1] else "()")


def _fincode(inputs):
    return "OrderedDict([%s])" % ", ".join("(%r, %s)" % (n, _domcode((k, d))) for n, k, d in inputs)


def value_code(val, target_dom, seed):
    k = val[0]
    if k == "rt":
        return "Tensor(%s, %s)" % (_arr(G.tensor_data(val[1], val[2], val[3], seed)), _fincode(val[2]))
    if k == "int":
        return str(int(val[1]))
    if k == "slice":
        return "Slice(%r, %d, %d, %d, %d)" % tuple(val[1:])
    if k == "idx":
        return "Tensor(np.array(%r).reshape(%r), %s, %d)" % (
            list(val[2]),
            tuple(d for _, _, d in val[1]),
            _fincode(val[1]),
            target_dom[1],
        )
    if k == "var":
        return "Variable(%r, %s)" % (val[1], _domcode(target_dom))
    if k == "matvec":
        _, y, yshape, aid, binputs = val
        A, b = G.matvec_data(aid, binputs, target_dom[1], yshape, seed)
        return "(Tensor(%s, %s) @ Variable(%r, %s) + Tensor(%s, %s))" % (
            _arr(A),
            _fincode(binputs),
            y,
            _domcode(("r", tuple(yshape))),
            _arr(b),
            _fincode(binputs),
        )
    if k == "getitem":
        return "Variable(%r, %s)[%d]" % (val[1], _domcode(("r", tuple(val[2]))), val[3])
    if k == "sum2":
        return "(Variable(%r, %s) + Variable(%r, %s))" % (val[1], _domcode(target_dom), val[2], _domcode(target_dom))
    if k == "scale":
        return "(2.0 * Variable(%r, %s) - 1.0)" % (val[1], _domcode(target_dom))
    raise ValueError(k)


def code(e, seed):
    tag = e[0]
    if tag == "G":
        w, s = G.sqrt_params(e[1], e[2], e[3], seed)
        return "Gaussian(%s, %s, %s)" % (_arr(w), _arr(s), _fincode(e[2]))
    if tag == "C":
        kw, _ = G.constructor_args(e[1], e[2], e[3], e[4], e[5], seed)
        return "Gaussian(%s, inputs=%s)" % (", ".join("%s=%s" % (k, _arr(v)) for k, v in kw.items()), _fincode(e[2]))
    if tag == "T":
        return "Tensor(%s, %s)" % (_arr(G.tensor_data(e[1], e[2], (), seed)), _fincode(e[2]))
    if tag == "N":
        return "Number(%r)" % float(e[1])
    if tag == "lin":
        return "(%s)" % " + ".join(
            "%r * Variable(%r, %s)%s" % (float(c), n, _domcode(("r", tuple(sh))), ".sum()" if sh else "") for n, sh, c in e[1]
        )
    if tag == "osubs":
        inner = G.ty(e[1])
        return "Subs(%s, (%s,))" % (
            code(e[1], seed),
            ", ".join("(%r, %s)" % (n, value_code(v, inner[n], seed)) for n, v in e[2] if n in inner),
        )
    if tag == "add":
        return "(%s\n   + %s)" % (code(e[1], seed), code(e[2], seed))
    if tag == "subs":
        inner = G.ty(e[1])
        return "%s(**{%s})" % (
            code(e[1], seed),
            ", ".join("%r: %s" % (n, value_code(v, inner[n], seed)) for n, v in e[2] if n in inner),
        )
    if tag == "align":
        return "%s.align(%r)" % (code(e[1], seed), tuple(e[2]))
    if tag == "compress":
        return "compress(%s)" % code(e[1], seed)
    if tag == "cat":
        return "Cat(%r, (%s,), %r)" % (e[1], ",\n    ".join(code(p, seed) for p in e[3]), e[2])
    raise ValueError(tag)


def snippet(e, seed, point=None, bidx=None, expected=None, actual=None):
    lines = [SNIPPET_HEADER]
    lines.append("def compress(x):\n    with compress_gaussians:\n        return reinterpret(x)\n")
    lines.append("r = %s" % code(e, seed))
    lines.append("print(type(r).__name__, dict(r.inputs))")
    if point is not None:
        lines.append(
            "point = {%s}" % ", ".join("%r: Tensor(%s)" % (n, _arr(v)) for n, v in point.items())
        )
        lines.append("v = r(**point) if point else r")
        lines.append("print('result at the point:', v, getattr(v, 'inputs', None))")
        lines.append("bidx = %r" % (bidx,))
        lines.append("print('batch index', bidx, 'actual:', v.data[tuple(bidx[n] for n in v.inputs)] if hasattr(v, 'data') else v)")
        lines.append("print('expected (dense quadratic form at the transformed point):', %r)" % (expected,))
        lines.append("# reference value (dense quadratic form at the transformed point): %r; funsor gave %r" % (expected, actual))
    return "\n".join(lines)


# ---------------------------------------------------------------------------
# evaluation and comparison


def close(a, b):
    return bool(np.isfinite(a) and abs(a - b) <= ATOL + RTOL * abs(b))


PT = "_pt"  # fresh batch input that indexes the lattice points in the batched evaluation


def _table(v, t, batch, npts, info):
    """Read the value table of a grounded result ``v`` as an array of shape (npts,) + batch sizes, or a verdict."""
    from funsor.tensor import Tensor
    from funsor.terms import Number

    full = (npts,) + tuple(s for _, s in batch)
    if isinstance(v, Number):
        return np.broadcast_to(np.asarray(float(v.data)), full), None
    if not isinstance(v, Tensor):
        return None, ("decline:lazy:" + type(v).__name__.split("[")[0], "", info)
    vin = tuple(v.inputs)
    sizes = dict(batch)
    sizes[PT] = npts
    if any(n not in sizes for n in vin):
        return None, ("violation:unexpected-input", "value at a point has inputs %s" % (dict(v.inputs),), info)
    data = np.asarray(v.data)
    if data.shape != tuple(sizes[n] for n in vin) or any(v.inputs[n].dtype != sizes[n] for n in vin):
        return None, ("violation:data-shape", "data shape %s for inputs %s" % (data.shape, dict(v.inputs)), info)
    target = [PT] + [n for n, _ in batch]
    present = [n for n in target if n in vin]
    data = np.transpose(data, [vin.index(n) for n in present])
    data = data.reshape([sizes[n] if n in vin else 1 for n in target])
    return np.broadcast_to(data, full), None


def evaluate(e, seed):
    """-> (kind, message, info).  kind: "ok" | "ok-constant" | "decline:<why>" | "violation:<what>"."""
    from funsor.domains import Bint
    from funsor.tensor import Tensor
    from funsor.terms import Funsor

    t = G.ty(e)
    try:
        r = build(e, seed)
    except Exception as ex:
        tb = traceback.extract_tb(ex.__traceback__)
        where = tb[-1].name if tb else "?"
        return "decline:raised:%s@%s" % (type(ex).__name__, where), str(ex)[:200], {}
    if not isinstance(r, Funsor):
        return "decline:not-a-funsor", type(r).__name__, {}
    head = type(r).__name__.split("[")[0]
    info = {"head": head}
    # declared inputs
    for n, d in r.inputs.items():
        if n not in t:
            return "violation:unexpected-input", "result has input %s: %s not in the reference type %s" % (n, d, dict(t)), info
        exp = t[n]
        try:
            got = ("b", d.dtype) if isinstance(d.dtype, int) else ("r", tuple(d.shape))
        except Exception:
            got = None
        if got != exp or (exp[0] == "b" and tuple(d.shape) != ()):
            return "violation:input-domain", "input %s has domain %s, expected %s" % (n, d, exp), info
    if str(r.output) != "Real":
        return "violation:output", "output %s, expected Real" % (r.output,), info
    reals = [(n, d[1]) for n, d in t.items() if d[0] == "r"]
    batch = [(n, d[1]) for n, d in t.items() if d[0] == "b"]
    ndim = sum(G.numel(s) for _, s in reals)
    bidxs = list(itertools.product(*[range(s) for _, s in batch]))
    # two passes: (1) ground Tensors at one generic point (all coordinates non-zero);
    # (2) the whole unisolvent lattice at once, as Tensors batched over the fresh input PT.
    passes = []
    if ndim:
        lat = G.lattice(ndim, seed)
        passes.append(("ground", np.stack([G.generic_point(ndim, seed)])))
        passes.append(("lattice", lat))
    else:
        passes.append(("ground", np.zeros((1, 0))))
    lo, hi, npoints = np.inf, -np.inf, 0
    for mode, pts in passes:
        env_pts = G.split_points(pts, reals)
        if mode == "ground":
            tables = []
            for j in range(len(pts)):
                try:
                    v = r(**{n: Tensor(np.array(x[j])) for n, x in env_pts.items()}) if env_pts else r
                except Exception as ex:
                    return "decline:evaluation-raised:" + type(ex).__name__, str(ex)[:200], info
                tab, verdict = _table(v, t, batch, 1, info)
                if verdict:
                    return verdict
                tables.append(tab[0])
            actual = np.stack(tables)
        else:
            pin = OrderedDict([(PT, Bint[len(pts)])])
            try:
                v = r(**{n: Tensor(np.array(x), pin) for n, x in env_pts.items()})
            except Exception as ex:
                return "decline:evaluation-raised:" + type(ex).__name__, str(ex)[:200], info
            actual, verdict = _table(v, t, batch, len(pts), info)
            if verdict:
                return verdict
        for bi in bidxs:
            env = dict(env_pts)
            env.update({n: i for (n, _), i in zip(batch, bi)})
            expected = np.broadcast_to(np.asarray(G.ev(e, env, seed), float), (len(pts),))
            got = actual[(slice(None),) + bi]
            lo, hi, npoints = min(lo, expected.min()), max(hi, expected.max()), npoints + len(pts)
            bad = ~(np.isfinite(got) & (np.abs(got - expected) <= ATOL + RTOL * np.abs(expected)))
            if bad.any():
                j = int(np.argmax(bad))
                point = {n: x[j] for n, x in env_pts.items()}
                info.update(point=point, bidx={n: i for (n, _), i in zip(batch, bi)}, expected=float(expected[j]), actual=float(got[j]), mode=mode)
                return (
                    "violation:value",
                    "at %s %s (%s evaluation): funsor %.12g, dense form %.12g"
                    % ({n: np.asarray(x).tolist() for n, x in point.items()}, info["bidx"], mode, got[j], expected[j]),
                    info,
                )
    info["points"] = npoints
    if hi - lo <= 1e-12:
        return "ok-constant", "", info
    return "ok", "", info


# ---------------------------------------------------------------------------
# sites and features


def subterms(e):
    """post-order"""
    tag = e[0]
    out = []
    if tag == "add":
        out += subterms(e[1]) + subterms(e[2])
    elif tag in ("subs", "osubs", "align", "compress"):
        out += subterms(e[1])
    elif tag == "cat":
        for p in e[3]:
            out += subterms(p)
    elif tag == "hist":
        for p in e[1]:
            out += subterms(p)
    out.append(e)
    return out


def size(e):
    return len(subterms(e))


_AFFINE = ("matvec", "getitem", "sum2", "scale")


def site_of(e):
    tag = e[0]
    if tag == "G":
        dim = G.total_dim(e[2])
        return "compress_rank" if e[3] > 2 * dim else "Gaussian.eager_subs:real"
    if tag == "C":
        return "constructor:%s+%s" % (e[3], e[4])
    if tag == "lin":
        return "lazy-linear-term"
    if tag == "add":
        kinds = sorted(x[0] for x in (e[1], e[2]))
        if "lin" in kinds:
            return "lazy-linear-term+Gaussian"
        if "T" in kinds:
            return "Gaussian+Tensor"
        if "N" in kinds:
            return "Gaussian+Number"
        return "Gaussian+Gaussian"
    if tag in ("subs", "osubs"):
        inner = G.ty(e[1])
        ks = set()
        for n, v in e[2]:
            if n not in inner:
                continue
            ks.add("var" if v[0] == "var" else "int" if v[0] in ("int", "slice", "idx") else "real" if v[0] == "rt" else "affine")
        return "Gaussian.eager_subs:" + (ks.pop() if len(ks) == 1 else "mixed")
    if tag == "align":
        return "align_gaussian"
    if tag == "compress":
        return "compress_rank"
    if tag == "cat":
        return "eager_cat_homogeneous"
    return tag


def features_of(e, label):
    """(features, detail).  ``features`` is deliberately coarse (it is the de-duplication key of violation classes and
    what known-finding predicates test); ``detail`` describes the failing arguments fully."""
    t = G.ty(e)
    if label:
        op = label.split(" > ")[-1]
    elif e[0] in ("subs", "osubs"):
        op = e[0] + ":" + ",".join(sorted({v[0] for _, v in e[2]}))
    else:
        op = e[0]
    f = {"op": op}
    d = {"depth": max(size(e) - 1, 0)}
    arg = e[1] if e[0] in ("subs", "osubs", "align", "compress", "add") else (e[3][0] if e[0] == "cat" else e)
    if arg[0] == "add" and arg[1][0] == "lin":
        arg = arg[2]
    if arg[0] not in ("G", "C") and e[0] == "add" and e[2][0] in ("G", "C"):
        arg = e[2]
    ta = G.ty(arg)
    kinds = [x[0] for x in ta.values()]
    reals = [tuple(x[1]) for x in ta.values() if x[0] == "r"]
    dim = sum(G.numel(s) for s in reals)
    d["arg_head"] = arg[0]
    d["dim"] = dim
    d["real_shapes"] = str(reals)
    d["batch_sizes"] = str([x[1] for x in ta.values() if x[0] == "b"])
    d["layout"] = "".join(kinds)
    f["interleaved"] = "rb" in "".join(kinds)  # some batch input comes after a real input in .inputs
    kr = leaf_rank(arg)
    if kr is not None:
        d["rank"] = kr
        f["rank_class"] = rank_class(dim, kr)
    if e[0] in ("subs", "osubs"):
        d["value_kinds"] = ",".join(sorted({v[0] for n, v in e[2] if n in ta}))
        d["n_subs"] = len(e[2])
        f["batched_value"] = any(v[0] in ("rt", "matvec") and len(v[2] if v[0] == "rt" else v[4]) > 0 for n, v in e[2])
        # the substituted (affine) value mentions the very input it replaces, e.g. g(x=2*x-1)
        f["self_reference"] = any(v[0] in ("scale", "sum2") and n in v[1:] for n, v in e[2])
        # an affine value mentions (the caller's) variable whose name is ANOTHER key of the same substitution:
        # which kind of value is that other key bound to ("none" | "const" | "affine" | "rename" | "int", joined by +)
        bound = {n: ("rename" if v[0] == "var" else "const" if v[0] == "rt" else "affine" if v[0] in _AFFINE else "int") for n, v in e[2]}
        hit = set()
        for n, v in e[2]:
            if v[0] in _AFFINE:
                for m in (set(v[1:3]) if v[0] == "sum2" else {v[1]}) & (set(bound) - {n}):
                    hit.add(bound[m])
        f["mentions_key_bound_to"] = "+".join(sorted(hit)) or "none"
        f["pairs_in_input_order"] = [n for n, _ in e[2] if n in ta] == [n for n in ta if n in bound]
        if f["self_reference"] or "affine" in hit:
            f.pop("rank_class", None)
            f.pop("interleaved", None)
    if e[0] == "cat":
        f["name_is_part_name"] = e[1] == e[2]
        f["other_batch_inputs"] = any(x[0] == "b" and n != e[1] for n, x in t.items())
        d["parts"] = len(e[3])
        f["mixture_part"] = any(p[0] == "add" for p in e[3])
        ranks = [leaf_rank(p) for p in e[3]]
        d["part_ranks"] = str(ranks)
        if not f["name_is_part_name"]:
            f.pop("rank_class", None)
            f.pop("interleaved", None)
    if e[0] == "align":
        d["names"] = ",".join(e[2])
    return f, d


# ---------------------------------------------------------------------------
# the check


def worker_init():
    """Called once per worker by core: park everything inherited from the parent (the case list ...) in the permanent
    generation so that the explicit gc.collect() of history cases only looks at objects created since."""
    import gc

    gc.collect()
    gc.freeze()


def hist_snippet(steps, seed):
    """Stand-alone program of a history: the affine expression is built once and reused."""
    vals = {}
    for st in steps:
        inner = G.ty(st[1])
        for n, v in st[2]:
            if v[0] in _AFFINE:
                vals[value_code(v, inner[n], seed)] = "aff%d" % len(vals) if value_code(v, inner[n], seed) not in vals else vals[value_code(v, inner[n], seed)]
    lines = [SNIPPET_HEADER]
    for vc, name in vals.items():
        lines.append("%s = %s   # ONE live object, substituted several times" % (name, vc))
    for j, st in enumerate(steps):
        c = code(st, seed)
        for vc, name in vals.items():
            c = c.replace(vc, name)
        lines.append("r%d = %s" % (j, c))
        lines.append("print('step %d:', type(r%d).__name__, dict(r%d.inputs))" % (j, j, j))
    return "\n".join(lines)


def check_history(label, depth, e, seed):
    """Steps are executed in order with the affine values held alive in _HELD; each result is checked on its own."""
    import gc

    global _HELD
    key = repr(e)
    steps = e[1]
    try:
        for st in steps:
            G.ty(st)
    except G.IllTyped as ex:
        return core.skip(key, "ill-typed:" + str(ex)[:40])
    n = size(e)
    gc.collect()  # no stale objects of an earlier case survive in the hash-cons tables
    _HELD = {}
    try:
        nontrivial, heads = True, []
        for j, st in enumerate(steps):
            kind, msg, info = evaluate(st, seed)
            heads.append(str(info.get("head")))
            if kind == "ok-constant":
                nontrivial = False
            elif kind.startswith("decline"):
                return core.decline(key, site_of(st) + "|history-step-%d|" % j + kind.split(":", 1)[1], transitions=n)
            elif kind.startswith("violation"):
                # does the same step pass when the expression object is fresh?
                _HELD = {}
                gc.collect()
                alone, _, _ = evaluate(st, seed)
                f, detail = features_of(st, label)
                f["what"] = kind.split(":", 1)[1]
                f["history_dependent"] = not alone.startswith("violation")
                f["first_step"] = j == 0
                detail["step"] = j
                return core.violation(
                    key,
                    site_of(st),
                    "%s at step %d of a history that re-uses one affine expression object (the same step alone: %s): %s\n  %s"
                    % (kind, j, alone, msg, short(e)),
                    [label, depth, e],
                    f,
                    hist_snippet(steps, seed)
                    + "\n# step %d: expected inputs %s; at %s %s reference %r, funsor %r"
                    % (j, dict(G.ty(st)), {k: np.asarray(v).tolist() for k, v in (info.get("point") or {}).items()}, info.get("bidx"), info.get("expected"), info.get("actual")),
                    extra={"minimal": st, "detail": detail},
                    transitions=n,
                )
        return core.ok(key, nontrivial, "ok:%s:%s" % (label.split(" > ")[-1], "+".join(heads)), transitions=n)
    finally:
        _HELD = None


def check(case, seed):
    label, depth, e = case[0], case[1], tuplify(case[2])
    if e[0] == "hist":
        return check_history(label, depth, e, seed)
    key = repr(e)
    try:
        G.ty(e)
    except G.IllTyped as ex:
        return core.skip(key, "ill-typed:" + str(ex)[:40])
    kind, msg, info = evaluate(e, seed)
    n = size(e)
    if kind == "ok":
        return core.ok(key, True, "ok:%s:%s" % (label.split(" > ")[-1], info.get("head")), transitions=n)
    if kind == "ok-constant":
        return core.ok(key, False, "ok-constant:%s:%s" % (label.split(" > ")[-1], info.get("head")), transitions=n)
    if kind.startswith("decline"):
        return core.decline(key, site_of(e) + "|" + kind.split(":", 1)[1], transitions=n)
    # violation: localise to the smallest failing sub-term
    s, skind, smsg, sinfo = e, kind, msg, info
    for sub in subterms(e)[:-1]:
        if sub[0] in ("T", "N"):
            continue
        k2, m2, i2 = evaluate(sub, seed)
        if k2.startswith("violation"):
            s, skind, smsg, sinfo = sub, k2, m2, i2
            break
    f, detail = features_of(s, label if s is e else "")
    f["what"] = skind.split(":", 1)[1]
    return core.violation(
        key,
        site_of(s),
        "%s: %s\n  minimal failing term: %s\n  in program [%s]: %s" % (skind, smsg, short(s), label, short(e)),
        [label, depth, e],
        f,
        snippet(s, seed, sinfo.get("point"), sinfo.get("bidx"), sinfo.get("expected"), sinfo.get("actual")),
        extra={"minimal": s, "detail": detail},
        transitions=n,
    )
