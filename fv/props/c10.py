"""C10 -- Markov products equal the explicit left-to-right fold over time.

Bounded-exhaustive enumeration of *inputs* (duration, state pairs and sizes, batch inputs, which of {time, batch
inputs} the transition depends on, free real parameter, data kind, input layout, semiring) times every entry
point (sequential / naive / mixed with every num_segments / MarkovProduct eager, lazy+reinterpret, renamed,
reduced, alpha-converted; sarkka_bilmes_product with every lag set / num_periods and its naive counterpart).
Each execution on the real library is compared, on the whole finite table of the result's inputs, with the
semiring fold of fv.ref.markov (plain numpy).
"""
import inspect
import json

import numpy as np

from .. import core
from ..ref import lang, markov
from ..ref.lang import generic_fill
from ..ref.markov import chain_fold, f_align, lagged_fold, s_prod, s_sum, s_zero  # noqa: F401

ID = "C10"
LEVEL_RULE = (
    "one case = (input configuration, entry point): configurations are the full product of the announced bounds, "
    "ordered by duration then size; non-trivial = duration >= 2 and the library returned a value that was grounded "
    "and compared on its whole input table; distinct = distinct case descriptor"
)
ASSUMPTIONS = [
    "numpy backend; transitions are Tensors (optionally times/plus one free Real variable)",
    "real contents: generic fill (pairwise distinct, function of VERIF_SEED), mapped to 2*v-2.5 for additive "
    "product ops; the 'z' data kind additionally plants semiring zeros (0, -inf, +inf) incl. a whole zero column",
    "the free real parameter is bound at 2 generic positive points with Tensor(np.array(v))",
    "reference fold fv.ref.markov (numpy, stable logsumexp) is trusted; unit-tested in tests/test_c10.py",
    "float comparison |a-b| <= 1e-9 + 1e-7|b|, infinities exactly, NaN from the library is a mismatch",
    "an exception or a result still lazy after binding is a decline (statement: 'whenever they return a value')",
]

PHI, RHO = lang.PHI, lang.RHO

# --- SNIPPET-BEGIN  (driver: uses only numpy, funsor, generic_fill and the fv.ref.markov functions by bare name)
TIME = "time"
REALVAR = "r"
BATCH_SIZES = {"a": 2, "b": 3}
PREV_POOL = ("xp", "yp", "zp")
CURR_POOL = ("xc", "yc", "zc")  # pair i is (PREV_POOL[i], CURR_POOL[perm[i]])
SEMIRING_OPS = {
    "add_mul": ("add", "mul"),
    "logaddexp_add": ("logaddexp", "add"),
    "max_add": ("max", "add"),
    "min_add": ("min", "add"),
    "max_mul": ("max", "mul"),
}
SITES = {
    "seq": "sequential_sum_product",
    "naive": "naive_sequential_sum_product",
    "mixed": "mixed_sequential_sum_product",
    "mp_eager": "MarkovProduct.eager",
    "mp_lazy": "MarkovProduct.eager",
    "mp_fresh": "MarkovProduct.eager_subs",
    "mp_swap": "MarkovProduct.eager_subs",
    "mp_swap_eager": "Subs(lazy MarkovProduct) under eager",
    "mp_reduce_curr": "MarkovProduct.reduce",
    "mp_reduce_prev": "MarkovProduct.reduce",
    "mp_time_collide": "MarkovProduct._alpha_convert",
    "sb_naive": "naive_sarkka_bilmes_product",
    "sb": "sarkka_bilmes_product",
}


def real_points(seed):
    return [float(generic_fill(4001 + 13 * j, (), seed)) - 0.25 * j for j in range(2)]


def base_data(sr, shape, seed, leaf_id):
    v = generic_fill(leaf_id, tuple(shape), seed)
    return v if sr.endswith("_mul") else 2.0 * v - 2.5


def close(a, b):
    a = np.asarray(a, dtype=np.float64)
    b = np.asarray(b, dtype=np.float64)
    if a.shape != b.shape or np.isnan(a).any():
        return False
    inf = np.isinf(b)
    if not np.array_equal(a[inf], b[inf]):
        return False
    return bool(np.all(np.abs(a[~inf] - b[~inf]) <= 1e-9 + 1e-7 * np.abs(b[~inf])))


def compare_result(res, names, sizes, arr):
    """Compare a funsor result (all real inputs already bound) with the reference table ``arr`` over ``names``.

    Returns (kind, message): "ok" | "decline:<why>" | "violation:<what>"."""
    from funsor.domains import Real
    from funsor.tensor import Tensor
    from funsor.terms import Funsor, Number

    if not isinstance(res, Funsor):
        return "decline:not-a-funsor:" + type(res).__name__, ""
    if isinstance(res, Number):
        data = np.asarray(res.data, dtype=np.float64)
    elif isinstance(res, Tensor):
        data = np.asarray(res.data)
    else:
        return "decline:lazy:" + type(res).__name__.split("[")[0], ""
    if res.output != Real:
        return "violation:output-domain", "result output %s, expected Real" % (res.output,)
    for n, d in res.inputs.items():
        if n not in names:
            what = "leftover-time" if n == TIME else "extra-input"
            return "violation:" + what, "result has input %r (%s); expected inputs %s" % (n, d, list(names))
        if d.shape or d.dtype != sizes[n]:
            return "violation:input-domain", "input %r declared %s, expected Bint[%d]" % (n, d, sizes[n])
    if tuple(data.shape) != tuple(d.size for d in res.inputs.values()):
        return "violation:data-shape", "data shape %s for inputs %s" % (data.shape, dict(res.inputs))
    for ax, n in enumerate(names):
        if n not in res.inputs and not close(arr, np.broadcast_to(np.take(arr, [0], axis=ax), arr.shape)):
            return "violation:dropped-input", "result lacks input %r but the value depends on it" % (n,)
    rin = list(res.inputs)
    a = np.transpose(data, [rin.index(n) for n in names if n in res.inputs])
    a = np.broadcast_to(a.reshape([sizes[n] if n in res.inputs else 1 for n in names]), arr.shape)
    if not close(a, arr):
        with np.errstate(invalid="ignore"):
            bad = ~(np.abs(a - arr) <= 1e-9 + 1e-7 * np.abs(arr)) & ~(a == arr)
        idx = tuple(int(i) for i in np.argwhere(bad)[0]) if bad.any() else ()
        pt = dict(zip(names, idx))
        return "violation:value", "at %s: funsor %r, reference fold %r (%d of %d cells differ)" % (
            pt,
            float(a[idx]) if idx or not a.shape else None,
            float(arr[idx]) if idx or not arr.shape else None,
            int(bad.sum()),
            bad.size,
        )
    return "ok", ""


def bind_and_compare(res, names, sizes, expected_at, real, seed):
    """expected_at(v) -> reference array at real-parameter value v (v None when there is no parameter)."""
    from funsor.tensor import Tensor
    from funsor.terms import Funsor

    if not real:
        return compare_result(res, names, sizes, expected_at(None))
    if not isinstance(res, Funsor):
        return "decline:not-a-funsor:" + type(res).__name__, ""
    for v in real_points(seed):
        g = res
        if REALVAR in res.inputs:
            try:
                g = res(**{REALVAR: Tensor(np.array(v))})
            except Exception as ex:
                return "decline:subs-raised:" + type(ex).__name__, str(ex)[:200]
        kind, msg = compare_result(g, names, sizes, expected_at(v))
        if kind != "ok":
            return kind, ("at %s=%r: " % (REALVAR, v)) + msg
    return "ok", ""


# ---- sequential family ---------------------------------------------------------------------------------------


def seq_setup(case, seed):
    """case = ["seq", semiring, duration, state sizes, batch deps, dep_time, real, fill, layout, perm, entry].

    ``perm`` assigns curr names to pairs: with a non-identity perm the prev names and the curr names of the pairs
    sort in different orders ("crossed" names), so pairing by separately sorted names contracts the wrong pair."""
    _, sr, T, sizes_, deps, dep_time, real, fill, layout, perm, entry = case
    npairs = len(sizes_)
    prevs = [PREV_POOL[i] for i in range(npairs)]
    currs = [CURR_POOL[perm[i]] for i in range(npairs)]
    sizes = {n: BATCH_SIZES[n] for n in deps}
    for i, s in enumerate(sizes_):
        sizes[prevs[i]] = sizes[currs[i]] = s
    sizes[TIME] = T
    canon = ([TIME] if dep_time else []) + list(deps) + prevs + currs
    shape = [sizes[n] for n in canon]
    full = np.array(base_data(sr, shape, seed, 7 + npairs), dtype=np.float64)
    full2 = np.array(base_data(sr, shape, seed, 57 + npairs), dtype=np.float64)  # second leaf (real forms 2, 3)
    if fill == "d":
        # deep log-space data: strongly negative log-factors (partial products far below log(float64 tiny))
        full = 20.0 * np.array(generic_fill(7 + npairs, tuple(shape), seed), dtype=np.float64) - 300.0
    if fill == "z":
        n = int(np.prod([sizes[p] for p in prevs]))
        nb = int(np.prod([sizes[b] for b in deps])) if deps else 1
        view = full.reshape((T if dep_time else 1, nb, n, n))
        for t in range(view.shape[0]):
            for i in range(n):
                for j in range(n):
                    if (i + 2 * j + t + 1) % 4 == 0 or (j == 0 and t == (1 if dep_time and T > 1 else 0)):
                        view[t, :, i, j] = s_zero(sr)
    return dict(
        sr=sr, T=T, npairs=npairs, prevs=prevs, currs=currs, deps=list(deps), dep_time=bool(dep_time),
        real=int(real), layout=layout, entry=entry, sizes=sizes, canon=canon, full=full, full2=full2,
    )


def seq_trans(cfg):
    """The transition funsor, the time Variable and the step dict, built through the public API."""
    from collections import OrderedDict

    from funsor.domains import Bint, Real
    from funsor.tensor import Tensor
    from funsor.terms import Variable

    tpart = [TIME] if cfg["dep_time"] else []
    if cfg["layout"] == 0:
        order = cfg["deps"] + tpart + [n for pc in zip(cfg["prevs"], cfg["currs"]) for n in pc]
    else:
        order = cfg["currs"] + cfg["prevs"] + tpart + cfg["deps"][::-1]

    def leaf(arr):
        data = np.ascontiguousarray(np.transpose(arr, [cfg["canon"].index(n) for n in order]))
        return Tensor(data, OrderedDict((n, Bint[cfg["sizes"][n]]) for n in order))

    trans = leaf(cfg["full"])
    if cfg["real"]:
        # real forms: 1 = a (x) r ; 2 = (a (x) r) (x) c  (two leaves, semiring product) ; 3 = a * r + c  (affine)
        r = Variable(REALVAR, Real)
        mul = cfg["sr"].endswith("_mul")
        if cfg["real"] == 3:
            trans = trans * r + leaf(cfg["full2"])
        else:
            trans = trans * r if mul else trans + r
            if cfg["real"] == 2:
                c = leaf(cfg["full2"])
                trans = trans * c if mul else trans + c
    time = Variable(TIME, Bint[cfg["T"]])
    step = dict(zip(cfg["prevs"], cfg["currs"]))
    return trans, time, step


def seq_run(cfg, entry=None):
    """Execute one entry point; returns the funsor result (may raise)."""
    from funsor import ops
    from funsor.domains import Bint
    from funsor.interpretations import lazy
    from funsor.interpreter import reinterpret
    from funsor.sum_product import (
        MarkovProduct,
        mixed_sequential_sum_product,
        naive_sequential_sum_product,
        sequential_sum_product,
    )
    from funsor.terms import Variable

    entry = cfg["entry"] if entry is None else entry
    sum_op, prod_op = (getattr(ops, n) for n in SEMIRING_OPS[cfg["sr"]])
    trans, time, step = seq_trans(cfg)
    if entry == "seq":
        return sequential_sum_product(sum_op, prod_op, trans, time, step)
    if entry == "naive":
        return naive_sequential_sum_product(sum_op, prod_op, trans, time, step)
    if entry.startswith("mixed:"):
        return mixed_sequential_sum_product(sum_op, prod_op, trans, time, step, num_segments=int(entry[6:]))
    if entry == "mp_eager":
        return MarkovProduct(sum_op, prod_op, trans, time, step)
    with lazy:
        mp = MarkovProduct(sum_op, prod_op, trans, time, step)
    if entry == "mp_lazy":
        return reinterpret(mp)
    swap = dict(step)
    swap.update({c: p for p, c in step.items()})
    if entry == "mp_swap_eager":
        return mp(**swap)
    with lazy:
        if entry == "mp_fresh":
            m2 = mp(**{n: "n_" + n for n in cfg["prevs"] + cfg["currs"]})
        elif entry == "mp_swap":
            m2 = mp(**swap)
        elif entry == "mp_reduce_curr":
            m2 = mp.reduce(sum_op, cfg["currs"][0])
        elif entry == "mp_reduce_prev":
            m2 = mp.reduce(sum_op, cfg["prevs"][-1])
        elif entry == "mp_time_collide":
            b = cfg["deps"][0]
            m2 = mp(**{b: Variable(TIME, Bint[cfg["sizes"][b]])})
        else:
            raise ValueError(entry)
    return reinterpret(m2)


def seq_expected(cfg, entry=None):
    """(names, sizes, expected_at) of the result of one entry point, from the reference fold."""
    entry = cfg["entry"] if entry is None else entry
    sr, T, sizes = cfg["sr"], cfg["T"], dict(cfg["sizes"])
    names = cfg["deps"] + cfg["prevs"] + cfg["currs"]

    def fold_at(v):
        if v is None:
            full = cfg["full"]
        elif cfg["real"] == 3:
            full = cfg["full"] * v + cfg["full2"]
        else:
            full = s_prod(sr, cfg["full"], v)
            if cfg["real"] == 2:
                full = s_prod(sr, full, cfg["full2"])
        Ts = [full[t] if cfg["dep_time"] else full for t in range(T)]
        return chain_fold(sr, Ts, cfg["npairs"])

    if entry == "mp_fresh":
        out = ["n_" + n if n in cfg["prevs"] + cfg["currs"] else n for n in names]
        for n in cfg["prevs"] + cfg["currs"]:
            sizes["n_" + n] = sizes[n]
        return out, sizes, fold_at
    if entry in ("mp_swap", "mp_swap_eager"):
        sw = dict(zip(cfg["prevs"], cfg["currs"]))
        sw.update(dict(zip(cfg["currs"], cfg["prevs"])))
        return [sw.get(n, n) for n in names], sizes, fold_at
    if entry in ("mp_reduce_curr", "mp_reduce_prev"):
        gone = cfg["currs"][0] if entry == "mp_reduce_curr" else cfg["prevs"][-1]
        ax = names.index(gone)
        return [n for n in names if n != gone], sizes, lambda v: s_sum(sr, fold_at(v), ax)
    if entry == "mp_time_collide":
        b = cfg["deps"][0]
        sizes[TIME] = sizes[b]  # here "time" legitimately names the renamed batch input
        return [TIME if n == b else n for n in names], sizes, fold_at
    return names, sizes, fold_at


def seq_attempt(cfg, seed, entry=None):
    try:
        res = seq_run(cfg, entry)
    except Exception as ex:
        return "decline:raised:" + type(ex).__name__, str(ex)[:200], None
    names, sizes, expected_at = seq_expected(cfg, entry)
    kind, msg = bind_and_compare(res, names, sizes, expected_at, cfg["real"], seed)
    return kind, msg, type(res).__name__.split("[")[0]


# ---- lagged family (sarkka_bilmes_product) -------------------------------------------------------------------


def sb_setup(case, seed):
    """case = ["sb", semiring, duration, [[var, size, [lags]]..], [[global, size]..], fill, layout, entry]."""
    _, sr, T, vars_, globs, fill, layout, entry = case
    labels = [("g", g) for g, _ in globs]
    sizes = {g: s for g, s in globs}
    for var, size, lags in vars_:
        for lag in [0] + sorted(lags):
            labels.append(("v", var, lag))
            sizes["_PREV_" * lag + var] = size
        for k in range(1, max([0] + list(lags)) + 1):
            sizes["_PREV_" * k + var] = size
    shape = [T] + [sizes[lab[1]] for lab in labels]
    full = np.array(base_data(sr, shape, seed, 23 + len(labels)), dtype=np.float64)
    if fill == "z":
        flat = full.reshape(T, -1)
        for t in range(T):
            for c in range(flat.shape[1]):
                if (c + t + 1) % 5 == 0:
                    flat[t, c] = s_zero(sr)
    return dict(sr=sr, T=T, labels=labels, sizes=sizes, full=full, layout=layout, entry=entry,
                globs=[g for g, _ in globs])


def sb_name(lab):
    return lab[1] if lab[0] == "g" else "_PREV_" * lab[2] + lab[1]


def sb_trans(cfg):
    from collections import OrderedDict

    from funsor.domains import Bint
    from funsor.tensor import Tensor
    from funsor.terms import Variable

    canon = [TIME] + [sb_name(lab) for lab in cfg["labels"]]
    g = [sb_name(lab) for lab in cfg["labels"] if lab[0] == "g"]
    v = [sb_name(lab) for lab in cfg["labels"] if lab[0] == "v"]
    order = g + [TIME] + v if cfg["layout"] == 0 else v[::-1] + [TIME] + g[::-1]
    sizes = dict(cfg["sizes"], **{TIME: cfg["T"]})
    data = np.ascontiguousarray(np.transpose(cfg["full"], [canon.index(n) for n in order]))
    trans = Tensor(data, OrderedDict((n, Bint[sizes[n]]) for n in order))
    return trans, Variable(TIME, Bint[cfg["T"]]), frozenset(cfg["globs"])


def sb_run(cfg, entry):
    from funsor import ops
    from funsor.sum_product import naive_sarkka_bilmes_product, sarkka_bilmes_product

    sum_op, prod_op = (getattr(ops, n) for n in SEMIRING_OPS[cfg["sr"]])
    trans, time, gv = sb_trans(cfg)
    if entry == "naive":
        return naive_sarkka_bilmes_product(sum_op, prod_op, trans, time, gv)
    return sarkka_bilmes_product(sum_op, prod_op, trans, time, gv, num_periods=int(entry[3:]))


def sb_expected(cfg):
    T = cfg["T"]
    f = lagged_fold(cfg["sr"], [cfg["full"][t] for t in range(T)], cfg["labels"])
    names = [lab[1] if lab[0] == "g" else ("_PREV_" * (-lab[2]) + lab[1] if lab[2] < 0 else lab[1]) for lab in f[0]]
    assert all(lab[0] == "g" or lab[2] < 0 or lab[2] == T - 1 for lab in f[0])
    return names, cfg["sizes"], f[1]


def sb_attempt(cfg, entry):
    try:
        res = sb_run(cfg, entry)
    except Exception as ex:
        return "decline:raised:" + type(ex).__name__, str(ex)[:200], None
    names, sizes, arr = sb_expected(cfg)
    kind, msg = compare_result(res, names, sizes, arr)
    return kind, msg, res


def run_case(case, seed):
    """Returns (kind, message, info).  kind: "ok" | "decline:<why>" | "violation:<what>"."""
    if case[0] == "seq":
        cfg = seq_setup(case, seed)
        kind, msg, rtype = seq_attempt(cfg, seed)
        return kind, msg, {"result_type": rtype}
    cfg = sb_setup(case, seed)
    kind, msg, res = sb_attempt(cfg, cfg["entry"])
    info = {"result_type": type(res).__name__.split("[")[0] if res is not None else None}
    if cfg["entry"] != "naive":
        nkind, nmsg, nres = sb_attempt(cfg, "naive")
        info["naive"] = nkind
        if kind == "ok" and nkind == "ok":
            # the statement's own oracle: equality with the naive counterpart, on the naive result's inputs
            nn = list(nres.inputs)
            k2, m2 = compare_result(res, nn, cfg["sizes"], np.asarray(nres.data, dtype=np.float64))
            if k2 != "ok":
                return k2, "sarkka_bilmes_product vs naive_sarkka_bilmes_product: " + m2, info
    return kind, msg, info


# --- SNIPPET-END


def worker_init():
    import warnings

    warnings.filterwarnings("ignore", category=RuntimeWarning)  # numpy overflow/-inf notes on planted zeros
    np.seterr(all="ignore")


def snippet(case, seed):
    src = open(__file__.replace(".pyc", ".py")).read()
    region = src.split("# --- SNIPPET-BEGIN", 1)[1].split("# --- SNIPPET-END", 1)[0].split("\n", 1)[1]
    ref = inspect.getsource(markov)
    return (
        "import sys; sys.path.insert(0, %r)\nimport numpy as np\nimport funsor\nfunsor.set_backend('numpy')\n"
        "PHI, RHO = %r, %r\n%s\n# ---- reference (fv/ref/markov.py)\n%s\n# ---- driver (fv/props/c10.py)\n%s\n"
        "case = %s\nprint(run_case(case, %d)[:2])\n"
        % (core.REPO, PHI, RHO, inspect.getsource(generic_fill), ref, region, json.dumps(case).replace("null", "None"), seed)
    )


# ---------------------------------------------------------------------------------------------------------------
# enumeration


def _tuples(values, n):
    if n == 0:
        return [[]]
    return [[v] + rest for v in values for rest in _tuples(values, n - 1)]


def bounds(tier):
    thorough = tier == "thorough"
    cfgs = seq_configs(tier)
    return {
        "durations": [1, 12 if thorough else 8],
        "state_pairs": [1, 3 if thorough else 2],
        "state_sizes": [1, 2, 3],
        "state_size_tuples": len({tuple(c[0]) for c in cfgs}),
        "batch_inputs": dict(BATCH_SIZES),
        "transition_depends_on": "every subset of {time, a, b} (8 subsets)",
        "free_real_parameter": "0 for every size tuple; 1 for <= %d state pair(s)" % (2 if thorough else 1),
        "data_kinds": {"g": "generic, every size tuple",
                       "z": "generic with planted semiring zeros incl. a whole zero column, <= %d state pair(s), "
                            "no real parameter" % (2 if thorough else 1)},
        "deep_data": "kind 'd': log-factors 20*generic-300 for the three additive-product semirings, no real parameter, "
                     "layout 0; quick: 1 pair, durations %s; thorough: <= 2 pairs, every duration" % (list(THIN_DURATIONS),),
        "real_parameter_forms": {"1": "a (x) r", "2": "(a (x) r) (x) c with two tensor leaves", "3": "a * r + c",
                                 "forms 2,3": "quick: states [2],[3], durations %s, deps %s x {time, no time}; thorough: "
                                              "states [1],[2],[3],[2,2], every duration, every dependency subset"
                                              % (list(REAL2_DURATIONS), DEPS_THIN)},
        "layouts": {"0": "batch.., time, prev/curr interleaved (all)",
                    "1": "curr.., prev.., time, batch reversed (thorough, <= 2 pairs, generic data)"},
        "seq_config_count": len(cfgs),
        "state_names": "pair i = (PREV_POOL[i], CURR_POOL[perm[i]]); identity perm for every configuration; every "
                       "non-identity perm (prev and curr names sort differently) for >= 2 pairs, every size tuple, "
                       "generic data, no real parameter, layout 0, durations %s%s"
                       % (list(CROSSED_DURATIONS), " (2 pairs: every duration)" if thorough else ""),
        "semirings": list(markov.SEMIRINGS),
        "seq_entries": ["seq", "naive", "mixed:k for every k in 1..duration+1", "mp_eager", "mp_lazy", "mp_fresh",
                        "mp_swap", "mp_swap_eager", "mp_reduce_curr", "mp_reduce_prev",
                        "mp_time_collide (when the transition has a batch input)"],
        "sb_variable_sets": sb_varsets(tier),
        "sb_lag_sets": LAGSETS,
        "sb_durations": [1, 10 if thorough else 8],
        "sb_entries": ["naive", "num_periods 1", "num_periods 2", "num_periods 3"],
        "sb_globals": [[], ["g:2"]] + ([["g:2", "h:3"]] if thorough else []),
        "sb_data_kinds": ["g", "z"],
        "sb_layouts": [0, 1] if thorough else [0],
        "not_enumerated": "each of the lags 1,2,3 on its own variable (funsor's block tensor has 2^24 cells: "
                          "MemoryError / 40 s per case in probing)",
    }


SEQ_ENTRIES = ["seq", "naive", "mp_eager", "mp_lazy", "mp_fresh", "mp_swap", "mp_swap_eager", "mp_reduce_curr",
               "mp_reduce_prev"]
DEPS = [[], ["a"], ["b"], ["a", "b"]]
LAGSETS = [[1], [2], [3], [1, 2], [1, 3], [2, 3], [1, 2, 3]]


def seq_configs(tier):
    """(state sizes, real, data kind, layout) combinations of a tier (documented in bounds())."""
    thorough = tier == "thorough"
    out = []
    for npairs in range(1, (3 if thorough else 2) + 1):
        for sizes in _tuples([1, 2, 3], npairs):
            out.append((sizes, 0, "g", 0))
            if npairs <= (2 if thorough else 1):
                out.append((sizes, 0, "z", 0))
                out.append((sizes, 1, "g", 0))
            if thorough and npairs <= 2:
                out.append((sizes, 0, "g", 1))
    return out


def _perms(n):
    if n == 0:
        return [[]]
    return [[v] + [w if w < v else w + 1 for w in rest] for v in range(n) for rest in _perms(n - 1)]


CROSSED_DURATIONS = (2, 3, 5)
THIN_DURATIONS = (2, 5, 8)  # deep data (quick)
REAL2_DURATIONS = (2, 3, 5)  # two-leaf real-parameter forms (quick)
DEPS_THIN = [[], ["a", "b"]]


def seq_cases(tier):
    thorough = tier == "thorough"
    out = []
    for T in range(1, (12 if thorough else 8) + 1):
        configs = [(sizes, real, fill, layout, list(range(len(sizes)))) for sizes, real, fill, layout in seq_configs(tier)]
        # crossed names: every non-identity assignment of curr names to pairs, every size tuple (incl. equal sizes),
        # generic data, no real parameter, layout 0; quick: durations 2,3,5; thorough: 2 pairs every duration,
        # 3 pairs durations 2,3,5
        for npairs in range(2, (3 if thorough else 2) + 1):
            if T in CROSSED_DURATIONS or (thorough and npairs == 2):
                for sizes in _tuples([1, 2, 3], npairs):
                    for perm in _perms(npairs)[1:]:
                        configs.append((sizes, 0, "g", 0, perm))
        # deep log-space data (additive product ops only) and the two-leaf real-parameter forms, thinned
        thin = []
        if T in THIN_DURATIONS or thorough:
            for npairs in range(1, (2 if thorough else 1) + 1):
                for sizes in _tuples([1, 2, 3], npairs):
                    thin.append((sizes, 0, "d", 0, list(range(npairs)), DEPS))
            for sizes in ([2], [3]) + (([1], [2, 2]) if thorough else ()):
                if thorough or T in REAL2_DURATIONS:
                    for form in (2, 3):
                        thin.append((sizes, form, "g", 0, list(range(len(sizes))), DEPS if thorough else DEPS_THIN))
        for sizes, real, fill, layout, perm, deplist in [c + (DEPS,) for c in configs] + thin:
            for deps in deplist:
                for dep_time in (1, 0):
                    for sr in markov.SEMIRINGS:
                        if fill == "d" and sr.endswith("_mul"):
                            continue
                        entries = SEQ_ENTRIES + ["mixed:%d" % k for k in range(1, T + 2)]
                        if deps:
                            entries = entries + ["mp_time_collide"]
                        for e in entries:
                            out.append(["seq", sr, T, sizes, deps, dep_time, real, fill, layout, perm, e])
    return out


def sb_varsets(tier):
    out = []
    for lags in LAGSETS:
        out.append([["x", 2, lags]])
    for lags in LAGSETS:
        out.append([["x", 2, lags], ["u", 2, []]])
    # each lag on its own variable (funsor's block tensor grows as size^(period+lag) per variable: the third
    # variable of the {1,2,3} split needs 2^24 cells and was seen to end in MemoryError, so it is not enumerated)
    out.append([["x", 2, [1]], ["y", 3, [2]]])
    out.append([["x", 2, [1]], ["y", 3, [3]]])
    out.append([["x", 2, [2]], ["y", 2, [3]]])
    if tier == "thorough":
        for lags in LAGSETS:
            out.append([["x", 3, lags]])
    return out


def sb_cases(tier):
    thorough = tier == "thorough"
    out = []
    globsets = [[], [["g", 2]]] + ([[["g", 2], ["h", 3]]] if thorough else [])
    for T in range(1, (10 if thorough else 8) + 1):
        for vs in sb_varsets(tier):
            for globs in globsets:
                for fill in ("g", "z"):
                    for layout in (0, 1) if thorough else (0,):
                        for sr in markov.SEMIRINGS:
                            for e in ["naive", "np:1", "np:2", "np:3"]:
                                out.append(["sb", sr, T, vs, globs, fill, layout, e])
    return out


def cases(tier):
    return seq_cases(tier) + sb_cases(tier)


def describe(case):
    if case[0] == "seq":
        _, sr, T, sizes, deps, dep_time, real, fill, layout, perm, e = case
        step = {PREV_POOL[i]: CURR_POOL[perm[i]] for i in range(len(sizes))}
        return "%s[%s] T=%d states=%s step=%s deps=%s real=%d data=%s layout=%d" % (
            e, sr, T, sizes, step, ["time"] * dep_time + list(deps), real, fill, layout)
    _, sr, T, vs, globs, fill, layout, e = case
    return "sarkka_bilmes %s[%s] T=%d vars=%s globals=%s data=%s layout=%d" % (e, sr, T, vs, globs, fill, layout)


def _entry_kind(case):
    e = case[-1]
    if case[0] == "sb":
        return "sb_naive" if e == "naive" else "sb"
    return "mixed" if e.startswith("mixed:") else e


def check(case, seed):
    case = json.loads(json.dumps(case))
    key = json.dumps(case)
    ek = _entry_kind(case)
    T = case[2]
    kind, msg, info = run_case(case, seed)
    tag = ""
    if case[0] == "seq":
        tag = ("" if case[5] else ":no-time") + (":real%s" % ("" if case[6] == 1 else case[6]) if case[6] else "")
    if kind == "ok":
        return core.ok(key, T >= 2, "ok:%s%s:%s" % (ek, tag, info.get("result_type")), transitions=T)
    if kind.startswith("decline"):
        return core.decline(key, "%s%s:%s" % (ek, tag, kind.split(":", 1)[1]), transitions=0)
    # violation: localise to the innermost function that already disagrees with the fold on this configuration
    site = SITES[ek]
    # features are kept small (known-finding predicates); everything else is in the message and the case
    feats = {"entry": ek, "what": kind.split(":", 1)[1]}
    if case[0] == "seq":
        feats.update(dep_time=bool(case[5]), real=bool(case[6]), real_form=case[6], data=case[7], crossed_names=case[9] != sorted(case[9]))
        if ek not in ("seq", "naive"):
            cfg = seq_setup(case, seed)
            for e in ["seq"] if ek != "mixed" else ["seq", "naive"]:
                k2, _, _ = seq_attempt(cfg, seed, e)
                if k2.startswith("violation"):
                    site = SITES[e]
                    break
    else:
        feats.update(lags=sorted({lag for v in case[3] for lag in v[2]}), naive=info.get("naive"))
    return core.violation(
        key, site, "%s: %s\n  case: %s" % (kind, msg, describe(case)), case, feats, snippet(case, seed), transitions=T
    )
