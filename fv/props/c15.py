"""C15 -- op tables are truthful; ops agree across scalar / 0-d / array operands; log-space limits; no NaN.

Exhaustive over the published tables (UNITS, DISTRIBUTIVE_OPS, BINARY_INVERSES, SAFE_BINARY_INVERSES,
UNARY_INVERSES, PRODUCT_TO_POWER) and over a finite operand grid restricted per entry to the op's carrier; every
identity is evaluated on the real ``funsor.ops`` in every operand kind and compared with the reference arithmetic of
``fv.ref.opsref`` (800-digit extended reals + a plain-double evaluation that recognises double-precision artefacts).

Case descriptors (all JSON lists of strings / ints):
    ["table", TABLE, ENTRY]                      one table entry, e.g. site "UNITS[and_]", "DISTRIBUTIVE_OPS[(max,mul)]"
    ["sva", OP, FORMX] / ["sva", OP, FORMX, FORMY]   scalar-vs-array agreement of one op in one pair of operand forms
    ["lim-lae", FORMX, FORMY]                    logaddexp on the limit values, tolerance 1e-12
    ["lim-lse", SHAPE, AXIS, KEEPDIMS, FIRST, FORM]  logsumexp: every content over the alphabet with cell 0 fixed
    ["lim-einsum", BACKEND, EQUATION, BANDS]     numpy_log / numpy_map einsum: every -inf mask
    ["nonan", OP, FORMX(, FORMY)]                safesub / safediv / reciprocal never return NaN on their carriers
"""
import itertools
import math
import warnings

import numpy as np

from .. import core
from ..ref import opsref as R

ID = "C15"
LEVEL_RULE = (
    "one case per table entry / per (op, operand-form pair) / per (reduction shape, axis, keepdims, first cell) / per "
    "(einsum backend, equation, band assignment); inside a case every tuple of the entry's carrier grid (every content "
    "over the alphabet, every -inf mask) is evaluated on funsor.ops in every operand kind and compared with the "
    "reference; a case is non-trivial when at least one point was defined in the reference and compared on a "
    "completed funsor evaluation; distinct = distinct case descriptor; counters.points_compared counts the "
    "(point, kind) comparisons"
)
ASSUMPTIONS = [
    "numpy backend; numpy warnings silenced (np.errstate ignore) -- values are not affected",
    "reference arithmetic fv.ref.opsref (800-digit decimal extended reals; exp/ln to 60 digits) is trusted and "
    "unit-tested in tests/test_c15.py; op semantics are attached to funsor ops by *name*",
    "a point is outside the property when the reference is undefined there (inf-inf, 0*inf, x/0, log of a negative, "
    "direction-dependent limits, ...) or when a plain double evaluation of the same formula deviates from the exact "
    "value (overflow of an intermediate, absorption): both are skipped and counted per reason",
    "logsumexp / einsum on float64 arrays of valid shapes must return a value (an exception there is a violation); "
    "everywhere else an exception raised by an op (Python scalar ZeroDivisionError / OverflowError / math domain error, ops that only "
    "accept arrays or only scalars, finfo of an integer array ...) is a decline; only a differing number, a NaN where "
    "the reference is defined, or a wrong result shape is a violation",
    "booleans are in the carrier only of and_/or_/xor and the comparisons; integers only where stated (Python bool/int "
    "arithmetic and numpy bool arithmetic are different algebras: True+True, ~True)",
    "safesub/safediv are compared with x-y / x/y only where they do not clip (y > -inf, y != 0); the clipped points "
    "are covered by the no-NaN cases",
    "log-space einsum operands: finite entries of one operand lie in one band (base + k/4) with any subset of cells "
    "set to -inf; operands mixing +-700 inside one contracted slice exceed the dynamic range exp(+-745) of every "
    "per-operand-shift algorithm in double precision and are outside the carrier",
    "no seeded data: the operand grid is fixed, VERIF_SEED does not influence anything",
    "float tolerance |a-b| <= 1e-9 + 1e-7|b| (tables, scalar-vs-array), 1e-12 (1+|b|) for the limit cases; infinities "
    "must match exactly; signed zeros are not distinguished",
]

_MISSING = object()

# ---------------------------------------------------------------------------------------------------------
# operand forms

FORMS = {
    "py": None,
    "np": None,
    "arr0": (),
    "s1": (1,),
    "s2": (2,),
    "s31": (3, 1),
    "s12": (1, 2),
    "s32": (3, 2),
}
FORM_ORDER = ("py", "np", "arr0", "s1", "s2", "s31", "s12", "s32")
TABLE_KINDS = ("py", "np", "arr0", "s2")


def form_shape(form):
    return FORMS[form] or ()


def _np_scalar(v):
    if isinstance(v, bool):
        return np.bool_(v)
    if isinstance(v, int):
        return np.int64(v)
    return np.float64(v)


def conv(form, values):
    """Build the operand of the given form from a flat list of grid values (one per cell, same dtype class)."""
    if form == "py":
        return values[0]
    if form == "np":
        return _np_scalar(values[0])
    return np.array(list(values)).reshape(FORMS[form])


def conv_code(form, values):
    toks = [R.token(v) for v in values]
    if form == "py":
        return toks[0]
    if form == "np":
        v = values[0]
        t = "np.bool_" if isinstance(v, bool) else "np.int64" if isinstance(v, int) else "np.float64"
        return "%s(%s)" % (t, toks[0])
    if FORMS[form] == ():
        return "np.array(%s)" % toks[0]
    return "np.array([%s]).reshape(%r)" % (", ".join(toks), FORMS[form])


def ncells(form):
    n = 1
    for d in form_shape(form):
        n *= d
    return n


def flat_floats(r):
    """Observed result -> (shape, list of Python floats); complex / non-numeric entries become nan."""
    a = np.asarray(r)
    out = []
    for x in a.ravel().tolist():
        try:
            out.append(float(x))
        except (TypeError, ValueError):
            out.append(math.nan)
    return tuple(a.shape), out


# ---------------------------------------------------------------------------------------------------------
# formula trees:  ("L", i) leaf | ("C", value) constant | (opname, tree, ...)


def ev(A, t, leaves):
    if t[0] == "L":
        return leaves[t[1]]
    if t[0] == "C":
        return A.const(t[1])
    return getattr(A, t[0])(*[ev(A, s, leaves) for s in t[1:]])


def code(t, names):
    if t[0] == "L":
        return names[t[1]]
    if t[0] == "C":
        return R.token(t[1])
    return "ops.%s(%s)" % (t[0], ", ".join(code(s, names) for s in t[1:]))


def tree_ops(t):
    if t[0] in ("L", "C"):
        return 0
    return 1 + sum(tree_ops(s) for s in t[1:])


class Fun:
    """The implementation under test as an evaluator of formula trees."""

    def __init__(self):
        from funsor import ops

        self.ops = ops

    def const(self, v):
        return v

    def __getattr__(self, name):
        return getattr(self.ops, name)


_FUN = None


def fun():
    global _FUN
    if _FUN is None:
        _FUN = Fun()
    return _FUN


def worker_init():
    warnings.simplefilter("ignore")
    np.seterr(all="ignore")


HEADER = "import math\nimport numpy as np\nfrom funsor import ops\n"

# ---------------------------------------------------------------------------------------------------------
# tables

TABLES = ("UNITS", "DISTRIBUTIVE_OPS", "BINARY_INVERSES", "SAFE_BINARY_INVERSES", "UNARY_INVERSES", "PRODUCT_TO_POWER")
PINNED_ENTRIES = {
    "UNITS": ["add", "mul", "max", "min", "and_", "or_", "xor", "logaddexp"],
    "DISTRIBUTIVE_OPS": ["add,mul", "max,mul", "min,mul", "max,add", "min,add", "or_,and_", "logaddexp,add", "sample,add"],
    "BINARY_INVERSES": ["mul", "add", "xor"],
    "SAFE_BINARY_INVERSES": ["mul", "add"],
    "UNARY_INVERSES": ["mul", "add"],
    "PRODUCT_TO_POWER": ["add", "mul"],
}
CARRIER_SETS = {
    "real": R.GRID_REAL,
    "real-float": R.GRID_FLOAT,
    "nonneg-float": R.GRID_NONNEG,
    "bool": R.GRID_BOOL,
    "bool+int": R.GRID_BOOL + R.GRID_INT,
    "log[-inf,finite]": R.GRID_LOG,
    "prob[0,finite]": R.GRID_PROB,
}
_OP_CARRIER = {
    "add": "real",
    "mul": "real",
    "max": "real",
    "min": "real",
    "and_": "bool",
    "or_": "bool",
    "xor": "bool+int",
    "logaddexp": "log[-inf,finite]",
}


def table_carrier(table, entry):
    """Name of the carrier grid used for one table entry (stated in the evidence)."""
    if table == "DISTRIBUTIVE_OPS":
        a, m = entry.split(",")
        if a == "logaddexp":
            return "log[-inf,finite]"
        if a == "or_" or m == "and_":
            return "bool"
        if m == "mul" and a in ("max", "min"):
            return "nonneg-float"
        return "real-float"
    if table == "UNITS" and entry == "xor":
        return "bool"
    if table == "SAFE_BINARY_INVERSES":
        return {"mul": "prob[0,finite]", "add": "log[-inf,finite]"}.get(entry, "real")
    return _OP_CARRIER.get(entry, "real")


def _live_tables():
    from funsor import ops

    live = {}
    live["UNITS"] = {k.name: v for k, v in ops.UNITS.items()}
    live["DISTRIBUTIVE_OPS"] = {"%s,%s" % (a.name, m.name): (a.name, m.name) for a, m in ops.DISTRIBUTIVE_OPS}
    for t in TABLES[2:]:
        live[t] = {k.name: v.name for k, v in getattr(ops, t).items()}
    return live


def table_entries():
    live = _live_tables()
    out = []
    for t in TABLES:
        names = list(PINNED_ENTRIES[t]) + sorted(set(live[t]) - set(PINNED_ENTRIES[t]))
        out.extend((t, n) for n in names)
    return out


L0, L1, L2 = ("L", 0), ("L", 1), ("L", 2)


def table_items(table, entry, value):
    """-> list of (label, leaf carriers, lhs tree, rhs tree) for one table entry; value = the live table value."""
    car = CARRIER_SETS[table_carrier(table, entry)]
    if table == "UNITS":
        u = value
        return [
            ("unit-left", [car], (entry, ("C", u), L0), L0),
            ("unit-right", [car], (entry, L0, ("C", u)), L0),
        ]
    if table == "DISTRIBUTIVE_OPS":
        a, m = value
        return [
            ("left-distributes", [car] * 3, (m, L0, (a, L1, L2)), (a, (m, L0, L1), (m, L0, L2))),
            ("right-distributes", [car] * 3, (m, (a, L1, L2), L0), (a, (m, L1, L0), (m, L2, L0))),
        ]
    if table in ("BINARY_INVERSES", "SAFE_BINARY_INVERSES"):
        inv = value
        return [
            ("op(inv(a,b),b)==a", [car] * 2, (entry, (inv, L0, L1), L1), L0),
            ("inv(op(a,b),b)==a", [car] * 2, (inv, (entry, L0, L1), L1), L0),
        ]
    if table == "UNARY_INVERSES":
        inv = value
        unit = ("C", R.REF_UNITS[entry])
        return [
            ("op(a,inv(a))==unit", [car], (entry, L0, (inv, L0)), unit),
            ("op(inv(a),a)==unit", [car], (entry, (inv, L0), L0), unit),
        ]
    if table == "PRODUCT_TO_POWER":
        pw = value
        items = []
        for n in range(5):
            if n == 0:
                prod = ("C", R.REF_UNITS[entry])
            else:
                prod = L0
                for _ in range(n - 1):
                    prod = (entry, prod, L0)
            items.append(("power(a,%d)==%d-fold product" % (n, n), [car], (pw, L0, ("C", n)), prod))
        return items
    raise KeyError(table)


def _site(table, entry):
    if table == "DISTRIBUTIVE_OPS":
        return "DISTRIBUTIVE_OPS[(%s)]" % entry
    return "%s[%s]" % (table, entry)


class Tally:
    def __init__(self):
        self.c = {}
        self.compared = 0
        self.calls = 0

    def add(self, k, n=1):
        self.c[k] = self.c.get(k, 0) + n

    def counters(self):
        d = dict(self.c)
        d["points_compared"] = self.compared
        return d


def _kind_combos(nleaves, tier="thorough"):
    if nleaves <= 2:
        return list(itertools.product(TABLE_KINDS, repeat=nleaves))
    # three leaves: all equal kinds, plus every combination of Python scalar / 0-d array (/ 1-d array in thorough):
    # the dispatch of every op is decided by pairs of operand kinds
    combos = [(k,) * nleaves for k in TABLE_KINDS]
    mixed = ("py", "arr0", "s2") if tier == "thorough" else ("py", "arr0")
    for c in itertools.product(mixed, repeat=nleaves):
        if c not in combos:
            combos.append(c)
    return combos


def _leaf(form, v):
    return conv(form, [v] * ncells(form))


def _expected_shape(kinds):
    return np.broadcast_shapes(*[form_shape(k) for k in kinds])


def check_table(case):
    table, entry = case[1], case[2]
    tier = case[3] if len(case) > 3 else "thorough"
    fixed = tuple(case[4:])  # restrict the leading leaves to one carrier value each (splits the big entries)
    key = "table:%s:%s:%s:%s" % (table, entry, tier, "/".join(map(str, fixed)))
    site = _site(table, entry)
    live = _live_tables()[table]
    if entry not in live:
        return core.skip(key, "entry-absent-from-live-table")
    value = live[entry]
    opnames = [entry] if table != "DISTRIBUTIVE_OPS" else list(value)
    if table not in ("UNITS", "DISTRIBUTIVE_OPS"):
        opnames.append(value)
    unknown = [n for n in opnames if not R.knows(n)]
    if unknown:
        return core.skip(key, "not-a-numeric-op:" + ",".join(unknown))
    if table in ("UNARY_INVERSES", "PRODUCT_TO_POWER") and entry not in R.REF_UNITS:
        return core.skip(key, "no-reference-unit:" + entry)
    A = fun()
    tally = Tally()
    for label, carriers, lhs, rhs in table_items(table, entry, value):
        names = "abc"[: len(carriers)]
        carriers = [c[fixed[i] : fixed[i] + 1] if i < len(fixed) else c for i, c in enumerate(carriers)]
        for point in itertools.product(*carriers):
            st_l, e_l, f_l = R.reference(lambda X, *xs: ev(X, lhs, xs), point)
            st_r, e_r, f_r = R.reference(lambda X, *xs: ev(X, rhs, xs), point)
            if st_l == "undefined" or st_r == "undefined":
                tally.add("skipped:reference-undefined")
                continue
            ptxt = ", ".join("%s=%s" % (n, R.token(v)) for n, v in zip(names, point))
            if st_l == "ok" and st_r == "ok" and not R.exact_close(e_l, e_r):
                # the table entry is false in exact arithmetic: no implementation of the ops can make it true
                return core.violation(
                    key,
                    site,
                    "%s: declared identity %s is FALSE in exact arithmetic at %s: %s = %r but %s = %r"
                    % (site, label, ptxt, code(lhs, names), f_l, code(rhs, names), f_r),
                    case,
                    {"table": table, "entry": entry, "what": "false-in-exact-arithmetic", "item": label},
                    _table_snippet(lhs, rhs, names, point, ("py",) * len(point), f_r),
                )
            if st_l != "ok" or st_r != "ok":
                tally.add("skipped:double-precision-artefact")
                continue
            for kinds in _kind_combos(len(point), tier):
                leaves = [_leaf(k, v) for k, v in zip(kinds, point)]
                for side, tree, expect in (("lhs", lhs, f_l), ("rhs", rhs, f_r)):
                    if tree[0] in ("L", "C"):
                        continue
                    try:
                        got = ev(A, tree, leaves)
                    except Exception as ex:
                        tally.add("declined:%s:%s" % (site, type(ex).__name__))
                        continue
                    tally.calls += tree_ops(tree)
                    shape, vals = flat_floats(got)
                    bad = None
                    if shape != tuple(_expected_shape(kinds)):
                        bad = "shape %r, expected %r" % (shape, tuple(_expected_shape(kinds)))
                    else:
                        for x in vals:
                            if not R.close(x, expect):
                                bad = "got %r, expected %r" % (x, expect)
                                break
                    tally.compared += 1
                    if bad:
                        return core.violation(
                            key,
                            site,
                            "%s: %s fails at %s (operand kinds %s): %s = %s" % (site, label, ptxt, "/".join(kinds), code(tree, names), bad),
                            case,
                            {
                                "table": table,
                                "entry": entry,
                                "what": "nan" if "got nan" in bad else "value",
                                "item": label,
                            },
                            _table_snippet(lhs, rhs, names, point, kinds, f_r),
                        )
    out = core.ok(key, tally.compared > 0, "ok:" + site, transitions=tally.calls, counters=tally.counters())
    return out


def _table_snippet(lhs, rhs, names, point, kinds, expect):
    lines = [HEADER]
    for n, v, k in zip(names, point, kinds):
        lines.append("%s = %s" % (n, conv_code(k, [v] * ncells(k))))
    lines.append("print('lhs     ', %s)" % code(lhs, names))
    lines.append("print('rhs     ', %s)" % code(rhs, names))
    lines.append("print('expected', %s)" % R.token(expect))
    return "\n".join(lines) + "\n"


# ---------------------------------------------------------------------------------------------------------
# scalar-vs-array agreement

_RF = ("int", "float")
SVA_BINARY = {
    # op: (classes of x, classes of y)
    "add": (_RF, _RF),
    "sub": (_RF, _RF),
    "mul": (_RF, _RF),
    "truediv": (_RF, _RF),
    "floordiv": (_RF, _RF),
    "mod": (_RF, _RF),
    "pow": (_RF, _RF),
    "max": (_RF, _RF),
    "min": (_RF, _RF),
    "eq": (("int", "float", "bool"),) * 2,
    "ne": (("int", "float", "bool"),) * 2,
    "lt": (("int", "float", "bool"),) * 2,
    "le": (("int", "float", "bool"),) * 2,
    "gt": (("int", "float", "bool"),) * 2,
    "ge": (("int", "float", "bool"),) * 2,
    "and_": (("int", "bool"),) * 2,
    "or_": (("int", "bool"),) * 2,
    "xor": (("int", "bool"),) * 2,
    "lshift": (("nonneg-int",),) * 2,
    "rshift": (("nonneg-int",),) * 2,
    "logaddexp": (("log",), ("log",)),
    "safesub": (("log",), ("log",)),
    "safediv": (("prob",), ("prob",)),
}
SVA_UNARY = {
    "abs": _RF,
    "neg": _RF,
    "pos": _RF,
    "invert": ("int",),
    "exp": _RF,
    "log": _RF,
    "log1p": _RF,
    "sqrt": _RF,
    "tanh": _RF,
    "atanh": _RF,
    "sigmoid": _RF,
    "reciprocal": _RF,
    "lgamma": _RF,
}
CLASS_VALUES = {
    "int": R.GRID_INT,
    "nonneg-int": tuple(v for v in R.GRID_INT if v >= 0),
    "float": R.GRID_FLOAT,
    "bool": R.GRID_BOOL,
    "log": R.GRID_LOG,
    "prob": R.GRID_PROB,
    "limit": R.LIMIT_VALUES,
}
SVA_EXCLUDED = {
    "sample": "alias of logaddexp's scalar default used as a marker for sampling; not a numeric op",
    "null": "placeholder, raises by design",
    "getitem": "structural",
    "getslice": "structural",
    "matmul": "linear algebra, arrays only",
    "clamp": "takes bounds as extra arguments; the scalar default shadows min/max with its parameters and raises "
    "TypeError (a decline), so there is nothing to compare with the array registration np.clip",
    "isnan": "predicate on NaN; the grid contains no NaN",
    "detach": "identity",
}


def ops_catalogue():
    """Classify every Op instance exported by funsor.ops.{builtin,array,op}.__all__ (reported in bounds)."""
    from funsor import ops

    names = []
    for m in (ops.builtin, ops.array, ops.op):
        names.extend(n for n in m.__all__ if isinstance(getattr(ops, n, None), ops.Op))
    checked, excluded, other = [], {}, []
    for n in sorted(set(names)):
        if n in SVA_BINARY or n in SVA_UNARY:
            checked.append(n)
        elif n in SVA_EXCLUDED:
            excluded[n] = SVA_EXCLUDED[n]
        else:
            other.append(n)
    return checked, excluded, other


_REF_CACHE = {}


def ref_point(opname, point, tol=None):
    k = (opname, tol) + tuple((type(v).__name__, v) for v in point)
    r = _REF_CACHE.get(k)
    if r is None:
        tree = (opname,) + tuple(("L", i) for i in range(len(point)))
        if tol:
            r = R.reference(lambda X, *xs: ev(X, tree, xs), point, tol, tol)
        else:
            r = R.reference(lambda X, *xs: ev(X, tree, xs), point)
        _REF_CACHE[k] = r
    return r


def _fill(values, offset, n):
    return [values[(offset + i) % len(values)] for i in range(n)]


def _index_maps(forms):
    shapes = [form_shape(f) for f in forms]
    out_shape = tuple(np.broadcast_shapes(*shapes))
    maps = []
    for s in shapes:
        n = int(np.prod(s)) if s else 1
        maps.append(np.broadcast_to(np.arange(n).reshape(s), out_shape).ravel().tolist())
    return out_shape, maps


def sweep_forms(opname, forms, classes, judge, key, site, case, tally, feature_base):
    """Run op on operands of the given forms, filled so that every tuple of class values is realised at result
    cell 0; ``judge(point, observed_float)`` -> None | (what, message) for every realised (point, cell)."""
    A = fun()
    op = getattr(A.ops, opname)
    out_shape, maps = _index_maps(forms)
    ns = [ncells(f) for f in forms]
    for cls in itertools.product(*classes):
        vals = [CLASS_VALUES[c] for c in cls]
        for offs in itertools.product(*[range(len(v)) for v in vals]):
            fills = [_fill(v, o, n) for v, o, n in zip(vals, offs, ns)]
            operands = [conv(f, fl) for f, fl in zip(forms, fills)]
            try:
                got = op(*operands)
            except Exception as ex:
                tally.add("declined:%s:%s" % (opname, type(ex).__name__))
                continue
            tally.calls += 1
            shape, obs = flat_floats(got)
            bad = None
            if shape != out_shape:
                bad = ("shape", "result shape %r, expected %r" % (shape, out_shape), None)
            else:
                for cell in range(len(obs)):
                    point = tuple(fl[m[cell]] for fl, m in zip(fills, maps))
                    res = judge(point, obs[cell])
                    if res is not None:
                        bad = (res[0], res[1], point)
                        break
            if bad:
                what, msg, point = bad
                names = "xy"[: len(forms)]
                call = "ops.%s(%s)" % (opname, ", ".join(names))
                snippet = HEADER + "".join(
                    "%s = %s\n" % (n, conv_code(f, fl)) for n, f, fl in zip(names, forms, fills)
                )
                snippet += "print(%s)\n" % call
                if point is not None:
                    snippet += "# cell-wise on Python scalars:\nprint(%s)\n" % (
                        "ops.%s(%s)" % (opname, ", ".join(R.token(v) for v in point))
                    )
                    msg = "at %s: %s" % (", ".join(R.token(v) for v in point), msg)
                feats = dict(feature_base, what=what)
                return core.violation(
                    key, site, "%s on operand forms %s: %s" % (site, "/".join(forms), msg), case, feats, snippet
                )
    return None


def _form_kind(form):
    return form if form in ("py", "np") else "array"


def check_sva(case):
    opname, forms = case[1], tuple(case[2:])
    key = "sva:%s:%s" % (opname, "/".join(forms))
    site = "scalar-vs-array:" + opname
    from funsor import ops

    if not hasattr(ops, opname):
        return core.skip(key, "op-absent")
    classes = SVA_BINARY[opname] if len(forms) == 2 else (SVA_UNARY[opname],)
    tally = Tally()

    def judge(point, x):
        st, e, ef = ref_point(opname, point)
        if st == "undefined":
            tally.add("skipped:reference-undefined")
            return None
        if st == "artefact":
            tally.add("skipped:double-precision-artefact")
            return None
        tally.compared += 1
        if not R.close(x, ef):
            return ("nan" if x != x else "value", "got %r, reference %r" % (x, ef))
        return None

    v = sweep_forms(opname, forms, classes, judge, key, site, case, tally, {"op": opname})
    if v is not None:
        return v
    return core.ok(key, tally.compared > 0, "ok:" + site, transitions=tally.calls, counters=tally.counters())


# ---------------------------------------------------------------------------------------------------------
# limits

LIM_TOL = 1e-12


def lim_close(x, expect):
    if x != x:
        return False
    if math.isinf(expect) or math.isinf(x):
        return x == expect
    return abs(x - expect) <= LIM_TOL * (1.0 + abs(expect))


def check_lim_lae(case):
    forms = tuple(case[1:])
    key = "lim-lae:" + "/".join(forms)
    site = "limits:logaddexp"
    tally = Tally()

    def judge(point, x):
        try:
            expect = R.lse_fsum(point)
        except R.Undefined:
            tally.add("skipped:reference-undefined")
            return None
        tally.compared += 1
        if not lim_close(x, expect):
            return ("nan" if x != x else "value", "got %r, reference m+log(fsum(exp(x-m))) = %r" % (x, expect))
        return None

    v = sweep_forms("logaddexp", forms, (("limit",), ("limit",)), judge, key, site, case, tally, {"op": "logaddexp"})
    if v is not None:
        return v
    return core.ok(key, tally.compared > 0, "ok:" + site, transitions=tally.calls, counters=tally.counters())


LSE_SHAPES = ((), (1,), (2,), (3,), (1, 2), (2, 2), (3, 1), (3, 2))
LSE_FULL = (-R.INF, -R.HUGE, -700.0, 0.5, 700.0, R.HUGE)
LSE_SMALL = (-R.INF, -700.0, 0.5, R.HUGE)


def lse_axes(shape):
    nd = len(shape)
    if nd == 0:
        return [None]
    if nd == 1:
        return [None, 0, -1]
    return [None, 0, 1, -1, -2, [0, 1]]


def lse_alphabet(shape, tier):
    n = int(np.prod(shape)) if shape else 1
    if tier == "thorough" or n <= 3:
        return LSE_FULL
    return LSE_SMALL


def lse_cases(tier):
    out = []
    for shape in LSE_SHAPES:
        forms = ["py", "np", "arr"] if shape == () else ["arr"]
        alpha = lse_alphabet(shape, tier)
        for axis in lse_axes(shape):
            for keepdims in (0, 1):
                for first in range(len(alpha)):
                    for form in forms:
                        out.append(["lim-lse", list(shape), axis, keepdims, first, form, tier])
    return out


def check_lim_lse(case):
    shape, axis, keepdims, first, form, tier = tuple(case[1]), case[2], bool(case[3]), case[4], case[5], case[6]
    if isinstance(axis, (list, tuple)):
        axis = tuple(axis)
    key = "lim-lse:%r:%r:%r:%d:%s:%s" % (shape, axis, keepdims, first, form, tier)
    site = "limits:logsumexp"
    from funsor import ops

    alpha = lse_alphabet(shape, tier)
    n = int(np.prod(shape)) if shape else 1
    nd = len(shape)
    axes = tuple(range(nd)) if axis is None else ((axis,) if isinstance(axis, int) else axis)
    tally = Tally()
    for rest in itertools.product(alpha, repeat=n - 1):
        content = [alpha[first]] + list(rest)
        if form == "py":
            x = content[0]
        elif form == "np":
            x = np.float64(content[0])
        else:
            x = np.array(content, dtype=np.float64).reshape(shape)
        oshape, expect = R.reduce_ref(content, shape, axes, keepdims, R.lse_fsum)
        bad = None
        try:
            got = ops.logsumexp(x, axis, keepdims=keepdims)
        except Exception as ex:
            if form != "arr":
                tally.add("declined:logsumexp:" + type(ex).__name__)
                continue
            # float64 arrays of a valid shape: the statement demands a value ("returns the exact limit")
            got = math.nan
            bad = ("raised", "raised %s: %s, reference %r" % (type(ex).__name__, str(ex)[:120], expect))
        tally.calls += 1
        gshape, obs = flat_floats(got)
        if bad:
            pass
        elif gshape != oshape:
            bad = ("shape", "result shape %r, expected %r" % (gshape, oshape))
        else:
            for x_, e_ in zip(obs, expect):
                tally.compared += 1
                if not lim_close(x_, e_):
                    bad = ("nan" if x_ != x_ else "value", "got %r, reference %r" % (obs, expect))
                    break
        if bad:
            xcode = conv_code("py" if form == "py" else "np" if form == "np" else "s32", content)
            if form == "arr":
                xcode = "np.array([%s]).reshape(%r)" % (", ".join(R.token(v) for v in content), shape)
            snippet = HEADER + "x = %s\nprint(ops.logsumexp(x, %r, keepdims=%r))\n" % (xcode, axis, keepdims)
            return core.violation(
                key,
                site,
                "logsumexp(x, axis=%r, keepdims=%r) on x=%s of shape %r: %s" % (axis, keepdims, [R.token(v) for v in content], shape, bad[1]),
                case,
                {"op": "logsumexp", "what": bad[0]},
                snippet,
            )
    return core.ok(key, tally.compared > 0, "ok:" + site, transitions=tally.calls, counters=tally.counters())


EINSUM_SIZES = {"a": 3, "b": 2, "c": 2}
EINSUM_EQUATIONS = (
    "a->",
    "a->a",
    "ab->",
    "ab->a",
    "ab->b",
    "ab->ba",
    "a,a->",
    "a,a->a",
    "a,b->ab",
    "a,b->",
    "ab,b->a",
    "ab,a->b",
    "ab,b->ab",
    "ab,ab->",
    "ab,ab->ba",
    "ba,ab->a",
    "ab,bc->ac",
    "ab,bc->",
    "ab,bc->ca",
    "a,ab,b->",
    "a,ab,b->b",
)
BANDS = {"0": 0.0, "+700": 700.0, "-700": -700.0, "+1e308": R.HUGE, "-1e308": -R.HUGE}
BAND_ORDER = ("0", "+700", "-700", "+1e308", "-1e308")
EINSUM_BACKENDS = ("numpy_log", "numpy_map")


def einsum_cases(tier):
    out = []
    for backend in EINSUM_BACKENDS:
        for eq in EINSUM_EQUATIONS:
            k = len(eq.split("->")[0].split(","))
            for bands in itertools.product(BAND_ORDER, repeat=k):
                out.append(["lim-einsum", backend, eq, list(bands), tier])
    return out


def einsum_masks(ncell, tier):
    """-inf masks over all operand cells: every subset (<= 10 cells), else every subset of size <= 2 or >= n-2
    plus every whole operand row/column pattern is a subset anyway for n <= 10."""
    limit = 10 if tier == "thorough" else 8
    if ncell <= limit:
        return list(itertools.product((0, 1), repeat=ncell))
    masks = []
    for r in (0, 1, 2, ncell - 2, ncell - 1, ncell):
        for pos in itertools.combinations(range(ncell), r):
            m = [0] * ncell
            for p in pos:
                m[p] = 1
            masks.append(tuple(m))
    # every contiguous run (rows of row-major operands, whole operands)
    for i in range(ncell):
        for j in range(i + 3, ncell - 2):
            masks.append(tuple(1 if i <= p < j else 0 for p in range(ncell)))
    return sorted(set(masks))


def check_lim_einsum(case):
    backend, eq, bands, tier = case[1], case[2], tuple(case[3]), case[4]
    key = "lim-einsum:%s:%s:%s:%s" % (backend, eq, "/".join(bands), tier)
    site = "limits:%s.einsum" % backend
    import importlib

    mod = importlib.import_module("funsor.einsum." + backend)
    ins = eq.split("->")[0].split(",")
    shapes = [tuple(EINSUM_SIZES[d] for d in dims) for dims in ins]
    counts = [int(np.prod(s)) for s in shapes]
    base = []
    for i, (band, n) in enumerate(zip(bands, counts)):
        base.append([BANDS[band] + 0.25 * ((3 * i + c) % 7) for c in range(n)])
    fn = R.lse_fsum if backend == "numpy_log" else max
    tally = Tally()
    total = sum(counts)
    for mask in einsum_masks(total, tier):
        flats, p = [], 0
        for b in base:
            flats.append([-R.INF if mask[p + c] else b[c] for c in range(len(b))])
            p += len(b)
        if not R.maxima_representable(flats):
            tally.add("skipped:product-of-operand-maxima-not-representable")
            continue
        try:
            oshape, expect = R.einsum_ref(eq, flats, EINSUM_SIZES, fn)
        except R.Undefined:
            tally.add("skipped:term-sum-order-dependent-in-double-precision")
            continue
        operands = [np.array(f, dtype=np.float64).reshape(s) for f, s in zip(flats, shapes)]
        bad = None
        try:
            got = mod.einsum(eq, *operands)
        except Exception as ex:
            # float64 arrays of matching shapes: the statement demands a value ("returns the exact limit")
            got = math.nan
            bad = ("raised", "raised %s: %s, reference %r" % (type(ex).__name__, str(ex)[:120], expect))
        tally.calls += 1
        gshape, obs = flat_floats(got)
        if bad:
            pass
        elif gshape != oshape:
            bad = ("shape", "result shape %r, expected %r" % (gshape, oshape))
        else:
            for x_, e_ in zip(obs, expect):
                tally.compared += 1
                if not lim_close(x_, e_):
                    bad = ("nan" if x_ != x_ else "value", "got %r, reference %r" % (obs, expect))
                    break
        if bad:
            snippet = "import math\nimport numpy as np\nfrom funsor.einsum import %s\n" % backend
            names = []
            for i, (f, s) in enumerate(zip(flats, shapes)):
                names.append("x%d" % i)
                snippet += "x%d = np.array([%s]).reshape(%r)\n" % (i, ", ".join(R.token(v) for v in f), s)
            snippet += "print(%s.einsum(%r, %s))\n" % (backend, eq, ", ".join(names))
            return core.violation(
                key,
                site,
                "%s.einsum(%r) on operands %s: %s" % (backend, eq, [[R.token(v) for v in f] for f in flats], bad[1]),
                case,
                {"backend": backend, "equation": eq, "what": bad[0]},
                snippet,
            )
    return core.ok(key, tally.compared > 0, "ok:" + site, transitions=tally.calls, counters=tally.counters())


# ---------------------------------------------------------------------------------------------------------
# no NaN

NONAN = {
    "safesub": (("log",), ("log",)),
    "safediv": (("prob",), ("prob",)),
    "reciprocal": (("prob",),),
}


def check_nonan(case):
    opname, forms = case[1], tuple(case[2:])
    key = "nonan:%s:%s" % (opname, "/".join(forms))
    site = "no-nan:" + opname
    tally = Tally()

    def judge(point, x):
        tally.compared += 1
        if x != x:
            return ("nan", "returned NaN")
        return None

    feats = {"op": opname, "last_operand": "python-number" if forms[-1] == "py" else "numpy"}
    v = sweep_forms(opname, forms, NONAN[opname], judge, key, site, case, tally, feats)
    if v is not None:
        # report the simplest operand forms of the same class as the witness (stable artefact whatever case is
        # merged first by the runner)
        for cand in itertools.product(FORM_ORDER, repeat=len(forms)):
            if cand == forms:
                break
            if (cand[-1] == "py") != (forms[-1] == "py"):
                continue
            w = sweep_forms(opname, cand, NONAN[opname], judge, key, site, ["nonan", opname] + list(cand), Tally(), feats)
            if w is not None:
                return w
        return v
    return core.ok(key, tally.compared > 0, "ok:" + site, transitions=tally.calls, counters=tally.counters())


# ---------------------------------------------------------------------------------------------------------
# module interface


def cases(tier):
    out = []
    for t, n in table_entries():
        if t == "DISTRIBUTIVE_OPS" and R.knows(n.split(",")[0]) and R.knows(n.split(",")[1]):
            m = len(CARRIER_SETS[table_carrier(t, n)])
            out.extend(["table", t, n, tier, i, j] for i in range(m) for j in range(m))
        else:
            out.append(["table", t, n, tier])
    from funsor import ops

    for opname in list(SVA_UNARY) + list(SVA_BINARY):
        if not hasattr(ops, opname):
            continue
        if opname in SVA_UNARY:
            for fx in FORM_ORDER:
                out.append(["sva", opname, fx])
        else:
            for fx in FORM_ORDER:
                for fy in FORM_ORDER:
                    out.append(["sva", opname, fx, fy])
    for fx in FORM_ORDER:
        for fy in FORM_ORDER:
            out.append(["lim-lae", fx, fy])
    for opname, classes in NONAN.items():
        if len(classes) == 1:
            out.extend(["nonan", opname, fx] for fx in FORM_ORDER)
        else:
            out.extend(["nonan", opname, fx, fy] for fx in FORM_ORDER for fy in FORM_ORDER)
    out.extend(lse_cases(tier))
    out.extend(einsum_cases(tier))
    return out


_DISPATCH = {
    "table": check_table,
    "sva": check_sva,
    "lim-lae": check_lim_lae,
    "lim-lse": check_lim_lse,
    "lim-einsum": check_lim_einsum,
    "nonan": check_nonan,
}


def check(case, seed):
    with np.errstate(all="ignore"):
        return _DISPATCH[case[0]](case)


def finalize(report, tier, seed):
    """Point-level declines / skips (inside the cases) made visible next to the case-level ones."""
    dec = {k[len("declined:") :]: n for k, n in report.counters.items() if k.startswith("declined:")}
    skp = {k[len("skipped:") :]: n for k, n in report.counters.items() if k.startswith("skipped:")}
    return {
        "declines": dict(sorted(dec.items())),
        "skipped_points": dict(sorted(skp.items())),
        "points_compared": report.counters.get("points_compared", 0),
    }


def describe(case):
    return " ".join(str(c) for c in case)


def bounds(tier):
    checked, excluded, other = ops_catalogue()
    tables = {}
    live = _live_tables()
    for t, n in table_entries():
        car = table_carrier(t, n)
        tables[_site(t, n)] = {
            "declared": repr(live[t].get(n, "absent")),
            "carrier": car,
            "grid": [R.token(v) for v in CARRIER_SETS[car]],
        }
    return {
        "grid_G": {
            "int": [R.token(v) for v in R.GRID_INT],
            "float": [R.token(v) for v in R.GRID_FLOAT],
            "bool": [R.token(v) for v in R.GRID_BOOL],
        },
        "table_entries": tables,
        "table_operand_kinds": "1-2 operands: every combination of %s; 3 operands: %d combinations (all equal, plus every "
        "mix of %s)" % (list(TABLE_KINDS), len(_kind_combos(3, tier)), "py/arr0/s2" if tier == "thorough" else "py/arr0"),
        "product_to_power_n": [0, 1, 2, 3, 4],
        "operand_forms": {k: ("python scalar" if k == "py" else "numpy scalar" if k == "np" else list(v)) for k, v in FORMS.items()},
        "scalar_vs_array_ops": {
            **{k: {"x": list(v)} for k, v in SVA_UNARY.items() if k in checked},
            **{k: {"x": list(v[0]), "y": list(v[1])} for k, v in SVA_BINARY.items() if k in checked},
        },
        "value_classes": {k: [R.token(v) for v in vs] for k, vs in CLASS_VALUES.items()},
        "ops_excluded_with_reason": excluded,
        "ops_not_elementwise_numeric (reductions, structural, linear algebra, constructors)": other,
        "limits": {
            "logaddexp_values": [R.token(v) for v in R.LIMIT_VALUES],
            "logsumexp_shapes": [list(s) for s in LSE_SHAPES],
            "logsumexp_axes": "None, every axis (positive and negative), (0,1); keepdims False/True",
            "logsumexp_alphabet": {
                str(list(s)): [R.token(v) for v in lse_alphabet(s, tier)] for s in LSE_SHAPES
            },
            "einsum_backends": list(EINSUM_BACKENDS),
            "einsum_equations": list(EINSUM_EQUATIONS),
            "einsum_sizes": EINSUM_SIZES,
            "einsum_bands": BANDS,
            "einsum_masks": "every subset of operand cells set to -inf when the operands have <= %d cells in total; "
            "otherwise every subset of size <= 2 or >= n-2 and every contiguous run" % (10 if tier == "thorough" else 8),
            "tolerance": "1e-12 * (1 + |reference|)",
        },
        "no_nan": {k: [list(c) for c in v] for k, v in NONAN.items()},
    }
