"""C13 -- Gaussian marginals, normalisers and integrals are exact.

Bounded-exhaustive enumeration of Gaussian signatures (every interleaving of 0-2 batch inputs with 1-3 real inputs
of shapes (), (2,), (2,2), total dimension <= 5) x ranks x operations; every execution on the real library is
compared with the dense closed forms of ``fv.ref.gauss13`` (plain numpy on the dense (P, eta, c) triple).

The funsor side of every case is a short *program text* (``Plan.setup`` + ``Plan.body``, public API only) that is
exec'd on the real library; the stand-alone snippet of a violation is exactly that text preceded by the import
header, so the artefact and the executed program cannot drift apart.

Case kinds: marg (one-step marginal of every subset, evaluated after / before / between pointwise evaluation of the
kept inputs), marg2 (two steps, both orders), lognorm, plate (reduce add, optionally followed by a marginal), mix
(mixture reduce over integer and real inputs), contract (Contraction of two Gaussians / mixtures), intvar / intgauss
(Integrate rules), moment (moment matching: mass, mean, covariance read off a quadratic fitted through the lattice
values of the result), neg (too little information: the operation must not return numbers), hist (history on one
object: touch a cached property -> rename / swap / index inputs -> reduce; the closed form of the substituted Gaussian
must be obtained whatever was computed before the substitution).

Completion is demanded (a raise or a lazy result is a violation ``<site>:declined``) for marg, marg2, lognorm, plate
on inputs with rank >= dim; everywhere else a raise / lazy result is a decline.
"""
import itertools
import re

import numpy as np

from .. import core
from ..ref import gauss13 as G
from ..ref.lang import generic_fill, tuplify

ID = "C13"
LEVEL_RULE = (
    "cases = (operation kind, Gaussian signature = ordered interleaving of batch inputs i,j and real inputs x,y,z, "
    "rank, operation parameters: reduced subset / order of steps / plate set / logits inputs / integrand signature), "
    "enumerated simplest-first (fewest inputs, smallest dimension); a case is non-trivial when the funsor result "
    "was grounded to numbers and compared with the dense closed form at every lattice point and batch index (or, for "
    "negative cases, the required refusal was observed); distinct = distinct case text"
)
ASSUMPTIONS = [
    "numpy backend; FUNSOR_DEBUG/PROFILE off",
    "a Gaussian denotes -1/2||x @ prec_sqrt - white_vec||^2 (read from funsor/gaussian.py, checked by test_c13)",
    "real parameters: deterministic generic matrices with prescribed singular values in [0.7,1.6) (condition of the "
    "precision <= 5.3 when rank >= dim), a function of VERIF_SEED; the enumeration does not depend on the seed",
    "results are compared on the unisolvent lattice {0, h_a e_a, h_a e_a + h_b e_b} of the remaining real inputs "
    "(a quadratic is determined by its values there) at every index of the remaining batch inputs",
    "tolerance |a-b| <= 1e-8 + 1e-6|b| (Cholesky/QR/solve on both sides); cases whose reference block P_bb has "
    "condition > 1e6 are skipped and counted",
    "the closed forms in fv.ref.gauss13 are trusted (hand-computed unit tests in tests/test_c13.py)",
]

REAL_NAMES = ("x", "y", "z")
BATCH_NAMES = ("i", "j")
SHAPE_OF_DIM = {1: (), 2: (2,), 4: (2, 2)}
COND_LIMIT = 1e6
RTOL, ATOL = 1e-6, 1e-8


class Mismatch(Exception):
    def __init__(self, what, msg):
        Exception.__init__(self, msg)
        self.what = what


class Lazy(Exception):
    pass


# ---------------------------------------------------------------------------
# signatures


def _real_shape_tuples():
    out = []
    for n in (1, 2, 3):
        for dims in itertools.product((1, 2, 4), repeat=n):
            if sum(dims) <= 5:
                out.append(tuple(SHAPE_OF_DIM[d] for d in dims))
    return out


def _batch_size_tuples(tier):
    if tier == "thorough":
        return [()] + [(a,) for a in (1, 2, 3)] + [(a, b) for a in (1, 2, 3) for b in (1, 2, 3)]
    return [(), (1,), (2,), (2, 3), (2, 1)]  # size 3 occurs in (2, 3); all 13 tuples in thorough


def signatures(tier):
    """Every interleaving of the batch inputs (i, j in this order) with the real inputs (x, y, z in this order)."""
    sigs = []
    for shapes in _real_shape_tuples():
        for sizes in _batch_size_tuples(tier):
            n = len(shapes) + len(sizes)
            for pos in itertools.combinations(range(n), len(sizes)):
                sig, bi, ri = [], 0, 0
                for k in range(n):
                    if k in pos:
                        sig.append((BATCH_NAMES[bi], "b", sizes[bi]))
                        bi += 1
                    else:
                        sig.append((REAL_NAMES[ri], "r", shapes[ri]))
                        ri += 1
                sigs.append(tuple(sig))
    sigs.sort(key=lambda s: (len(s), sig_dim(s), len(batch_of(s)), repr(s)))
    return sigs


def reals_of(sig):
    return [(n, tuple(s)) for n, k, s in sig if k == "r"]


def batch_of(sig):
    return [(n, int(s)) for n, k, s in sig if k == "b"]


def numel(shape):
    return int(np.prod(shape)) if shape else 1


def sig_dim(sig):
    return sum(numel(s) for _, s in reals_of(sig))


def offsets(sig):
    """name -> list of flat coordinates of that real input (in .inputs order of the real inputs)."""
    out, start = {}, 0
    for n, s in reals_of(sig):
        out[n] = list(range(start, start + numel(s)))
        start += numel(s)
    return out


def coords(sig, names):
    off = offsets(sig)
    return sorted(c for n in names for c in off[n])


def block_kind(sig, names):
    """contiguous / interleaved: does the reduced set split the flat real dimension into one run or several?"""
    names = set(names)
    flags = [n in names for n, _ in reals_of(sig)]
    if all(flags):
        return "all"
    runs = sum(1 for k, f in enumerate(flags) if f and (k == 0 or not flags[k - 1]))
    kept_runs = sum(1 for k, f in enumerate(flags) if not f and (k == 0 or flags[k - 1]))
    return "contiguous" if runs == 1 and kept_runs == 1 else "interleaved"


def order_text(sig):
    return "".join(n for n, _, _ in sig)


# ---------------------------------------------------------------------------
# parameters


def _leaf_id(tag, sig, rank):
    h = 7 * rank + 1000 * tag
    for k, (n, kind, s) in enumerate(sig):
        h = h * 3 + (numel(s) if kind == "r" else 5 + int(s)) + k
    return h % 100003


def _generic(lid, shape, seed):
    u = generic_fill(lid, shape, seed)
    return np.cos(977.0 * u * u + 3.0 * u)  # breaks the additive structure of the Weyl sequence


def params(sig, rank, seed, tag=0):
    """white_vec[batch, rank], prec_sqrt[batch, dim, rank] with prescribed singular values in [0.7, 1.6)."""
    batch = tuple(s for _, s in batch_of(sig))
    dim = sig_dim(sig)
    lid = _leaf_id(tag, sig, rank)
    M = _generic(lid, batch + (dim, rank), seed)
    U, _, Vt = np.linalg.svd(M, full_matrices=False)
    k = min(dim, rank)
    s = 0.7 + 0.6 * (generic_fill(lid + 1, batch + (k,), seed) - 0.5)
    prec_sqrt = np.ascontiguousarray((U * s[..., None, :]) @ Vt)
    white_vec = generic_fill(lid + 2, batch + (rank,), seed) - 1.1
    return white_vec, prec_sqrt


def logits_array(sig, names, seed, edge):
    sizes = dict(batch_of(sig))
    shape = tuple(sizes[n] for n in names)
    a = generic_fill(_leaf_id(3, sig, len(names)), shape, seed) - 1.0
    if edge == "inf1" and a.size:
        a = a.copy()
        a.reshape(-1)[0] = -np.inf
    return a


def steps_for(n, seed):
    return 0.3 + 0.6 * (generic_fill(900, (max(n, 1),), seed) - 0.5)


# ---------------------------------------------------------------------------
# funsor side


def _domain_code(kind, s):
    if kind == "b":
        return "Bint[%d]" % s
    return "Real" if tuple(s) == () else "Reals[%s]" % ", ".join(str(d) for d in s)


def _inputs_code(sig):
    return "OrderedDict([%s])" % ", ".join('("%s", %s)' % (n, _domain_code(k, s)) for n, k, s in sig)


def _fs(names):
    return "frozenset({%s})" % ", ".join('"%s"' % n for n in sorted(names)) if names else "frozenset()"


HEADER = """import numpy as np
from collections import OrderedDict
import funsor
from funsor import ops, Tensor, Variable, Bint, Real, Reals
from funsor.gaussian import Gaussian
from funsor.cnf import Contraction
from funsor.integrate import Integrate
from funsor.interpretations import moment_matching
funsor.set_backend("numpy")
"""


def _namespace():
    ns = {}
    exec(HEADER.replace('funsor.set_backend("numpy")\n', ""), ns)
    return ns


_NS = None


def namespace():
    global _NS
    if _NS is None:
        _NS = _namespace()
    return dict(_NS)


def _arr_code(a):
    a = np.asarray(a)
    return "np.array(%s, dtype=np.float64).reshape(%s)" % (
        repr(a.reshape(-1).tolist()).replace("inf", 'float("inf")'),
        repr(tuple(a.shape)),
    )


def gaussian_code(var, sig, wv, ps):
    return "%s = Gaussian(%s,\n    %s,\n    %s)\n" % (var, _arr_code(wv), _arr_code(ps), _inputs_code(sig))


def logits_code(sig, names, arr):
    sizes = dict(batch_of(sig))
    ins = "OrderedDict([%s])" % ", ".join('("%s", Bint[%d])' % (n, sizes[n]) for n in names)
    return "logits = Tensor(%s, %s)\n" % (_arr_code(arr), ins)


def point_code(sig, names, vec):
    """pt_<name> = Tensor(np.array(...)) for the real inputs ``names`` at flat point ``vec`` (all real coords)."""
    off = offsets(sig)
    shapes = dict(reals_of(sig))
    out = ""
    for n in names:
        v = np.asarray(vec)[off[n]].reshape(shapes[n])
        out += "pt_%s = Tensor(%s)\n" % (n, _arr_code(v))
    return out


def set_points(ns, sig, names, vec):
    off = offsets(sig)
    shapes = dict(reals_of(sig))
    for n in names:
        ns["pt_" + n] = ns["Tensor"](np.array(np.asarray(vec)[off[n]].reshape(shapes[n]), dtype=np.float64))


def _subs_code(names):
    return ", ".join("%s=pt_%s" % (n, n) for n in names)


def result_array(t, bnames, bsizes, out_shape, ns):
    """Read a ground Tensor/Number directly (data in .inputs order) into an array over the expected batch."""
    Tensor, Number = ns["Tensor"], ns["funsor"].terms.Number
    full = tuple(bsizes) + tuple(out_shape)
    if isinstance(t, Number):
        return np.broadcast_to(np.asarray(t.data, dtype=np.float64), full)
    if not isinstance(t, Tensor):
        raise Lazy(type(t).__name__.split("[")[0])
    names = list(t.inputs)
    for n in names:
        if n not in bnames:
            shown = re.sub(r"__BOUND_\d+", "__BOUND_<n>", n)
            raise Mismatch("extra-input", "result has input %r (%s) that was reduced or never existed" % (shown, t.inputs[n]))
        d = t.inputs[n]
        if d.shape != () or d.dtype != bsizes[bnames.index(n)]:
            raise Mismatch("input-domain", "input %r declared %s, expected Bint[%d]" % (n, d, bsizes[bnames.index(n)]))
    if tuple(t.output.shape) != tuple(out_shape) or t.output.dtype != "real":
        raise Mismatch("output", "declared output %s, expected real%s" % (t.output, tuple(out_shape)))
    want = tuple(t.inputs[n].dtype for n in names) + tuple(out_shape)
    data = np.asarray(t.data, dtype=np.float64)
    if tuple(data.shape) != want:
        raise Mismatch("data-shape", "data shape %s, declared %s" % (tuple(data.shape), want))
    order = [names.index(n) for n in bnames if n in names]
    data = np.transpose(data, order + list(range(len(names), data.ndim)))
    shape = [bsizes[k] if n in names else 1 for k, n in enumerate(bnames)] + list(out_shape)
    return np.broadcast_to(data.reshape(shape), full)


def ground(r, sig, kept_reals, vec, bnames, bsizes, out_shape, ns):
    """Bind the remaining real inputs of ``r`` at flat point ``vec`` and read the numbers.

    A result that is still lazy after binding (including one that mentions inputs we cannot bind) raises Lazy: the
    caller decides whether that is a decline or, where completion is demanded, a violation."""
    Funsor = ns["funsor"].terms.Funsor
    if not isinstance(r, Funsor):
        raise Lazy("not-a-funsor:" + type(r).__name__)
    off = offsets(sig)
    shapes = dict(reals_of(sig))
    subs = {}
    for n, d in r.inputs.items():
        if d.dtype == "real" and n in kept_reals and tuple(d.shape) == shapes[n]:
            subs[n] = ns["Tensor"](np.array(np.asarray(vec)[off[n]].reshape(shapes[n]), dtype=np.float64))
    t = r(**subs) if subs else r
    return result_array(t, bnames, bsizes, out_shape, ns)


# ---------------------------------------------------------------------------
# case enumeration


def _subsets(names, min_size=1):
    names = list(names)
    for k in range(min_size, len(names) + 1):
        for c in itertools.combinations(names, k):
            yield list(c)


def _dimof(sig, names):
    sh = dict(reals_of(sig))
    return sum(numel(sh[n]) for n in names)


def _full_ranks(dim, tier):
    return [dim, dim + 1] + ([2 * dim + 1] if tier == "thorough" else [])


def _integrand_sigs(sig, tier):
    """Integrand Gaussians for Integrate(g, g2, .): real inputs = ordered subsets of g's real inputs (so also a
    different order than in g), batch inputs none / shared first batch input of g / an own one (k)."""
    rs = reals_of(sig)
    bs = batch_of(sig)
    out = []
    real_orders = []
    for k in range(1, len(rs) + 1):
        for c in itertools.permutations(rs, k):
            real_orders.append(list(c))
    if tier != "thorough":  # quick: all subsets in g's order + the fully reversed order
        keep = [c for c in real_orders if [n for n, _ in c] == [n for n, _ in rs if n in dict(c)]]
        if len(rs) > 1:
            keep.append(list(reversed(rs)))
        real_orders = keep
    for c in real_orders:
        reals = [(n, "r", s) for n, s in c]
        out.append(tuple(reals))
        in_order = [n for n, _ in c] == [n for n, _ in rs if n in dict(c)]
        if bs and (in_order or c == list(reversed(rs))):
            out.append(tuple([(bs[0][0], "b", bs[0][1])] + reals))
            out.append(tuple(reals[:1] + [(bs[-1][0], "b", bs[-1][1])] + reals[1:]))
        if c is real_orders[0] or (tier == "thorough" and in_order):
            out.append(tuple(reals + [("k", "b", 2)]))
    seen, res = set(), []
    for s in out:
        if s not in seen:
            seen.add(s)
            res.append(s)
    return res


def cases(tier):
    thorough = tier == "thorough"
    out = []
    for sig in signatures(tier):
        rs = [n for n, _ in reals_of(sig)]
        bs = [n for n, _ in batch_of(sig)]
        bsz = dict(batch_of(sig))
        dim = sig_dim(sig)
        full = _full_ranks(dim, tier)
        # -- marginalisation of every non-empty subset, one step, before/after pointwise evaluation
        for S in _subsets(rs):
            ds = _dimof(sig, S)
            kept = [n for n in rs if n not in S]
            ranks = list(full)
            if ds < dim:
                ranks = [ds] + ([ds + 1] if thorough and ds + 1 < dim else []) + ranks
            for rank in ranks:
                out.append(["marg", sig, rank, S, "after", []])
                if kept and (thorough or rank <= dim):
                    out.append(["marg", sig, rank, S, "before", kept])
                if len(kept) >= 2 and (thorough or rank == dim):
                    for n in kept:
                        out.append(["marg", sig, rank, S, "mid", [n]])
            if ds >= 2:  # negative: too little information
                for rank in sorted({ds - 1} | ({1} if thorough else set())):
                    out.append(["neg", sig, rank, "marg", S, []])
                    if kept:
                        out.append(["neg", sig, rank, "marg-before", S, []])
        # -- two steps, both orders
        for S1 in _subsets(rs):
            rest = [n for n in rs if n not in S1]
            for S2 in _subsets(rest):
                du = _dimof(sig, S1 + S2)
                ranks = ([du] if du < dim else []) + full[:2]
                for rank in ranks:
                    out.append(["marg2", sig, rank, S1, S2])
                d1 = _dimof(sig, S1)
                negr = {du - 1} | ({d1} if thorough else set())
                for rank in sorted(r for r in negr if d1 <= r < du and r >= 1):
                    out.append(["neg", sig, rank, "marg2", S1, S2])
        # -- log normaliser
        for rank in full[:2]:  # (rank 2*dim+1 is compressed to Gaussian + Tensor, which has no log_normalizer)
            out.append(["lognorm", sig, rank])
        if dim >= 2:
            out.append(["neg", sig, dim - 1, "lognorm", [], []])
        # -- plate fusion, alone and followed by a marginalisation
        for T in _subsets(bs):
            for rank in sorted({1, dim, dim + 1}):
                out.append(["plate", sig, rank, T, []])
            for S in _subsets(rs):
                for rank in sorted({1, dim}):
                    if thorough or S == rs or len(S) == 1:
                        out.append(["plate", sig, rank, T, S])
        # -- mixtures: (g + logits).reduce(logaddexp, ints [+ reals])
        if bs:
            first = [rs[0]]
            lsets = [list(bs)] + ([[bs[0]], [bs[1]], list(reversed(bs))] if len(bs) == 2 else []) + [None]
            if not thorough and len(bs) == 2:
                lsets = [list(bs), [bs[1]], None]
            for L in lsets:
                whole = L is not None and L == list(bs)
                for RI in _subsets(bs):
                    for RR in _subsets(rs, 0):
                        if not thorough and not whole and RR not in ([], rs, first):
                            continue
                        variants = [("gl", dim, None)]
                        if whole:
                            variants.append(("lg", dim + 1, None))
                            if not RR or RR == rs:
                                variants.append(("gl", dim, "inf1"))
                        if thorough and L is not None and not whole:
                            variants.append(("lg", dim + 1, None))
                        for order, rank, edge in variants:
                            out.append(["mix", sig, rank, L, RI, RR, order, edge])
            if dim >= 2:
                out.append(["neg", sig, dim - 1, "mix", [bs[0]], list(rs)])
        # -- Integrate(g, Variable)
        for target in rs:
            for scope in (["one"] if len(rs) == 1 else ["one", "all"]):
                for RI in _subsets(bs, 0):
                    if len(rs) == 1 or thorough:
                        ranks = full[:2]
                    elif RI in ([], list(bs)):
                        ranks = [dim + (len(RI) + len(scope)) % 2]
                    else:
                        continue
                    for rank in ranks:
                        out.append(["intvar", sig, rank, target, scope, RI, None, []])
        if bs and len(rs) == 1:  # mixture measures: Tensor + Gaussian, and the same lazily reduced over ints
            out.append(["intvar", sig, dim, rs[0], "one", [], list(bs), []])
            out.append(["intvar", sig, dim + 1, rs[0], "one", [], [bs[-1]], []])
            for RM in _subsets(bs):
                out.append(["intvar", sig, dim, rs[0], "one", [], list(bs), RM])
        if bs and len(rs) == 2:
            out.append(["intvar", sig, dim, rs[0], "one", [], list(bs), [bs[0]]])
        # mixture measures whose reduced set mixes the real variable(s) with integer inputs: inputs shared by the
        # weights and the Gaussian, inputs only the Gaussian has, both operand orders, and lazily reduced mixtures
        if bs and len(rs) <= (3 if thorough else 2):
            if len(rs) == 1:
                lsets = [list(bs)] + ([[bs[0]], [bs[1]]] if len(bs) == 2 else [])
                orders, scopes = ["gl", "lg"], ["one"]
                rms = [[]] + list(_subsets(bs))
            else:
                lsets = [list(bs)] + ([[bs[1]]] if thorough and len(bs) == 2 else [])
                orders, scopes = (["gl", "lg"] if thorough else ["gl"]), ["one", "all"]
                rms = [[], [bs[0]]] + ([[bs[1]]] if thorough and len(bs) == 2 else [])
            for L in lsets:
                for RM in rms:
                    rest = [n for n in bs if n not in RM]
                    for RI in _subsets(rest, 0):
                        if not RI and len(rs) == 1 and L == list(bs):
                            continue  # enumerated above
                        for scope in scopes:
                            for k, order in enumerate(orders):
                                out.append(["intvar", sig, dim + k, rs[0], scope, RI, L, RM, order])
        if dim >= 2 and len(rs) == 1:
            out.append(["neg", sig, dim - 1, "intvar", [rs[0]], []])
        # -- Integrate(g, g2)
        for n2, sig2 in enumerate(_integrand_sigs(sig, tier)):
            d2 = sig_dim(sig2)
            ranks2 = sorted({1, d2, min(d2 + 1, 2 * d2)}) if thorough else sorted({max(d2 - 1, 1), min(d2 + 1, 2 * d2)})
            all_b = [n for n, _ in batch_of(sig)] + [n for n, _ in batch_of(sig2) if n not in bs]
            for k2, rank2 in enumerate(ranks2):
                rank = dim + (k2 + n2) % 2
                neg = bool((k2 + n2 // 2) % 2)
                out.append(["intgauss", sig, rank, sig2, rank2, [], neg])
                if k2 == 0:
                    out.append(["intgauss", sig, rank, sig2, rank2, [], "diff"])
                if thorough:
                    out.append(["intgauss", sig, 2 * dim + 1 - rank, sig2, rank2, [], not neg])
                if all_b and n2 == 0 and (thorough or k2 == 0):  # reduced int inputs: every such case declines
                    for RI in _subsets(all_b):
                        out.append(["intgauss", sig, rank, sig2, rank2, RI, neg])
        if dim >= 2:
            out.append(["neg", sig, dim - 1, "intgauss", list(rs), []])
        # -- Contraction(logaddexp, add, vars, a, b) of two Gaussians / Gaussian mixtures
        for n2, sig2 in enumerate(_integrand_sigs(sig, tier)):
            d2 = sig_dim(sig2)
            r2 = [n for n, _ in reals_of(sig2)]
            b2 = [n for n, _ in batch_of(sig2)]
            if r2 != [n for n in rs if n in r2] or (b2 and sig2[0][1] != "b" and b2 != ["k"] and not thorough):
                continue  # second operand's reals in g's order; batch input none / shared (quick: leading) / own
            joint = list(bs) + [n for n in b2 if n not in bs]
            rank = dim + n2 % 2
            rank2 = max(d2 - 1, 1) if n2 % 2 else min(d2 + 1, 2 * d2)
            sub = [n for n in rs if n in r2] if len(r2) < len(rs) else [rs[0]]
            if not thorough:
                if not b2:
                    out.append(["contract", sig, rank, sig2, rank2, None, None, [], list(rs)])
                out.append(["contract", sig, rank, sig2, rank2, list(bs), list(b2), joint[:1], sub])
            else:
                for LA, LB in ((None, None), (None, list(b2)), (list(bs), None)):
                    out.append(["contract", sig, rank, sig2, rank2, LA, LB, [], list(rs)])
                combos = [([], list(rs)), ([], sub), (joint[:1], sub), (joint, list(rs))]
                for k, (RI, RR) in enumerate(combos):
                    if (RI, RR) not in combos[:k]:
                        out.append(["contract", sig, rank, sig2, rank2, list(bs), list(b2), RI, RR])
        # -- histories on one object: touch a cached property, substitute, then reduce
        if bs and (thorough or (len(rs) <= 2 and dim <= 3)):
            for kt, touch in enumerate(HIST_TOUCH):
                if touch == "margpart" and len(rs) < 2:
                    continue
                for rename in HIST_RENAME:
                    if (rename == "swap" and len(bs) < 2) or (rename == "swapreal" and len(rs) < 2):
                        continue
                    left = len(bs) - (1 if rename == "index" else 0)
                    for final in HIST_FINAL:
                        if (final == "margpart" and len(rs) < 2) or (final in ("plate", "mix") and not left):
                            continue
                        out.append(["hist", sig, dim + kt % 2, touch, rename, final])
            # the same live object: every materialiser of a cached property, then every operation
            touches = list(HIST_TOUCH[1:]) + ["attr:" + a for a in HIST_ATTRS] + ["lognorm+plate", "plate+margall"]
            for kt, touch in enumerate(touches):
                if touch == "margpart" and len(rs) < 2:
                    continue
                for final in HIST_FINAL_SAME:
                    if (final == "margpart" and len(rs) < 2) or (final == "intvar" and len(rs) != 1):
                        continue
                    if final == "plate-all" and len(bs) < 2:
                        continue
                    out.append(["hist", sig, dim + kt % 2, touch, "same", final])
        # -- moment matching
        if bs:
            lsets = [list(bs)] + ([[bs[0]], [bs[1]]] if len(bs) == 2 else [])
            for L in lsets:
                whole = L == list(bs)
                for RI in _subsets(bs):
                    if all(bsz[n] == 1 for n in RI) and not thorough and len(bs) == 2:
                        continue
                    for RR in _subsets(rs, 0):
                        if not thorough and not whole and RR not in ([], rs):
                            continue
                        out.append(["moment", sig, dim, L, RI, RR, None])
                        if whole and (thorough or RR in ([], rs)):
                            out.append(["moment", sig, dim + 1, L, RI, RR, "inf1" if not RR else None])
            if dim >= 2:
                out.append(["neg", sig, dim - 1, "moment", [bs[0]], []])
    return out


def bounds(tier):
    sigs = signatures(tier)
    return {
        "real_inputs": "1-3 of shapes (), (2,), (2,2), total dim <= 5: %d shape tuples" % len(_real_shape_tuples()),
        "batch_size_tuples": [list(t) for t in _batch_size_tuples(tier)],
        "signatures_all_interleavings": len(sigs),
        "ranks": "dim, dim+1"
        + (", 2*dim+1 (compressed at construction)" if tier == "thorough" else "")
        + "; block dim (and +1 in thorough) when the reduced block is smaller than dim; negatives: block dim - 1"
        + (", 1" if tier == "thorough" else ""),
        "marginalised_subsets": "every non-empty subset of the real inputs; every ordered pair of disjoint subsets",
        "lattice": "1 + n + n(n+1)/2 points per result with n remaining real coordinates (quadratic results); "
        "0, the n axis points, one mixed point and the all-steps point for mixture / integral results",
        "kinds": sorted({c[0] if c[0] != "neg" else "neg:" + c[3] for c in cases(tier)}),
    }


def describe(case):
    case = tuplify(case)
    return "%s %s rank=%s %s" % (case[0], order_text(case[1]) + str([s for _, _, s in case[1]]), case[2], list(case[3:]))


# ---------------------------------------------------------------------------
# the check


SITES = {
    "marg": "Gaussian.eager_reduce:logaddexp",
    "marg2": "Gaussian.eager_reduce:logaddexp",
    "lognorm": "log_normalizer",
    "plate": "Gaussian.eager_reduce:add",
    "mix": "mixture-reduce",
    "intvar": "Integrate:gaussian-variable",
    "intgauss": "Integrate:gaussian-gaussian",
    "moment": "moment_matching",
    "contract": "Contraction:gaussian-mixtures",
    "hist": "history:cached-property-after-substitution",
    "neg": "rank-deficient-accepted",
}
COMPLETION_DEMANDED = ("marg", "marg2", "lognorm", "plate")
# violation features are deliberately coarse (they key the known-finding predicates and the de-duplication of
# reported violations); the full description of the case goes into the message
VKEYS = {
    "marg": ("kind", "block", "mode", "rank_vs_dim", "order_class"),
    "marg2": ("kind", "block", "mode", "rank_vs_dim", "order_class"),
    "lognorm": ("kind", "rank_vs_dim", "order_class"),
    "plate": ("kind", "order_class", "then_marginalise_any"),
    "mix": ("kind", "logits_class", "reduced_reals"),
    "intvar": ("kind", "scope", "measure_class", "measure_reduced_ints", "reduces_shared_int", "reduces_gaussian_only_int"),
    "intgauss": ("kind", "negated", "integrand_batch"),
    "moment": ("kind", "reduced_reals_any"),
    "contract": ("kind", "operands", "second_batch", "reduced_reals"),
    "hist": ("kind", "touch", "rename", "final"),
    "neg": ("kind", "op", "columns_cover_second_block"),
}


def vfeat(pl, what, **extra):
    f = {k: pl.features[k] for k in VKEYS[pl.features["kind"]] if k in pl.features}
    f["what"] = what
    f.update(extra)
    return f


def _violation(pl, key, site, message, case, f, snip):
    return core.violation(key, site, vmsg(pl, message), case, f, snip)


def vmsg(pl, text):
    return "%s\n  case: %s" % (text, ", ".join("%s=%s" % kv for kv in sorted(pl.features.items())))


class Plan:
    """What one case executes on funsor and what the reference says."""

    setup = ""  # program text run once (defines g, logits, g2 ...)
    body = ""  # program text that defines r (re-run per point when it mentions pt_*)
    pre = ()  # real inputs substituted inside ``body``
    kept = ()  # real inputs expected to remain in r
    bnames = ()  # expected remaining batch inputs, in reference order
    bsizes = ()
    out_shape = ()
    ref = None  # flat point (all real coords of sig) -> array[bsizes + out_shape]
    features = None
    cond = 1.0
    domain = True  # False: rank too small -> negative case
    site = None  # overrides SITES[kind]
    quadratic = True  # the result is a quadratic in the remaining real inputs (full unisolvent lattice is used)


_OVERRIDE = {}  # (sig, rank) -> (white_vec, prec_sqrt): parameters prescribed by an enclosing plan (plan_hist)


def _base(case, seed):
    sig, rank = case[1], case[2]
    wv, ps = _OVERRIDE.get((sig, rank)) or params(sig, rank, seed)
    P, eta, c = G.dense_from_sqrt(wv, ps)
    pl = Plan()
    pl.sig, pl.rank, pl.wv, pl.ps, pl.P, pl.eta, pl.c = sig, rank, wv, ps, P, eta, c
    pl.setup = gaussian_code("g", sig, wv, ps)
    pl.bnames = [n for n, _ in batch_of(sig)]
    pl.bsizes = [s for _, s in batch_of(sig)]
    kinds = [k for _, k, _ in sig]
    if "b" not in kinds:
        oc = "no-batch"
    elif kinds.index("r") > max(k for k, v in enumerate(kinds) if v == "b"):
        oc = "batch-first"
    else:
        oc = "batch-after-real"
    dim = sig_dim(sig)
    pl.features = {
        "kind": case[0],
        "order": order_text(sig),
        "order_class": oc,
        "rank_vs_dim": "<" if rank < dim else ("=" if rank == dim else ">"),
        "n_batch": len(pl.bnames),
        "n_real": len(reals_of(sig)),
        "dim": sig_dim(sig),
        "rank_minus_dim": rank - sig_dim(sig),
    }
    return pl


def _quad_ref(P, eta, c, kept_coords):
    def ref(vec):
        if len(kept_coords) == 0:
            return np.asarray(c, dtype=np.float64)
        return G.evaluate(P, eta, c, np.asarray(vec)[kept_coords])

    return ref


def plan_marg(case, seed):
    _, sig, rank, S, mode, pre = case
    pl = _base(case, seed)
    rs = [n for n, _ in reals_of(sig)]
    red = coords(sig, S)
    keptc = [k for k in range(sig_dim(sig)) if k not in red]
    pl.kept = [n for n in rs if n not in S and n not in pre]
    pl.pre = list(pre)
    pl.cond = G.block_cond(pl.P, red)
    Pm, em, cm = G.marginalize(pl.P, pl.eta, pl.c, red)
    pl.ref = _quad_ref(Pm, em, cm, keptc)
    sub = "(%s)" % _subs_code(pre) if pre else ""
    pl.body = "r = g%s.reduce(ops.logaddexp, %s)\n" % (sub, _fs(S))
    pl.features.update(block=block_kind(sig, S), block_dim=len(red), mode=mode, rank_minus_block=rank - len(red))
    return pl


def plan_marg2(case, seed):
    _, sig, rank, S1, S2 = case
    pl = _base(case, seed)
    rs = [n for n, _ in reals_of(sig)]
    red = coords(sig, list(S1) + list(S2))
    keptc = [k for k in range(sig_dim(sig)) if k not in red]
    pl.kept = [n for n in rs if n not in S1 and n not in S2]
    pl.cond = G.block_cond(pl.P, red)
    Pm, em, cm = G.marginalize(pl.P, pl.eta, pl.c, red)
    pl.ref = _quad_ref(Pm, em, cm, keptc)
    pl.body = "r1 = g.reduce(ops.logaddexp, %s)\nr = r1.reduce(ops.logaddexp, %s)\n" % (_fs(S1), _fs(S2))
    pl.features.update(
        block=block_kind(sig, S1) + "+" + block_kind(tuple(e for e in sig if e[0] not in S1), S2),
        block_dim=len(red),
        mode="two-step",
        rank_minus_block=rank - len(red),
    )
    return pl


def plan_lognorm(case, seed):
    pl = _base(case, seed)
    pl.cond = G.block_cond(pl.P, range(sig_dim(pl.sig)))
    ln = G.log_normalizer(pl.P, pl.eta, pl.c)
    pl.ref = lambda vec: ln
    pl.body = "r = g.log_normalizer\n"
    return pl


def plan_plate(case, seed):
    _, sig, rank, T, S = case
    pl = _base(case, seed)
    rs = [n for n, _ in reals_of(sig)]
    axes = [pl.bnames.index(n) for n in T]
    P, eta, c = G.plate_sum(pl.P, pl.eta, pl.c, axes)
    mult = int(np.prod([pl.bsizes[a] for a in axes]))
    pl.bsizes = [s for n, s in zip(pl.bnames, pl.bsizes) if n not in T]
    pl.bnames = [n for n in pl.bnames if n not in T]
    red = coords(sig, S)
    keptc = [k for k in range(sig_dim(sig)) if k not in red]
    pl.kept = [n for n in rs if n not in S]
    if S:
        if rank * mult < len(red):
            pl.domain = False
        pl.cond = G.block_cond(P, red) if pl.domain else float("inf")
        if pl.cond <= COND_LIMIT:
            P, eta, c = G.marginalize(P, eta, c, red)
    pl.ref = _quad_ref(P, eta, c, keptc)
    pl.body = "r = g.reduce(ops.add, %s)\n" % _fs(T)
    if S:
        pl.body += "r = r.reduce(ops.logaddexp, %s)\n" % _fs(S)
    pl.features.update(
        plates=len(T),
        then_marginalise=block_kind(sig, S) if S else "no",
        then_marginalise_any=bool(S),
        fused_rank_minus_dim=rank * mult - sig_dim(sig),
    )
    pl.full_after = rank * mult >= sig_dim(sig)
    return pl


def _logw(pl, sig, L, seed, edge):
    """log-weights broadcast to the full batch of sig."""
    names = [n for n, _ in batch_of(sig)]
    sizes = [s for _, s in batch_of(sig)]
    if L is None:
        return np.zeros(sizes), ""
    arr = logits_array(sig, L, seed, edge)
    order = [L.index(n) for n in names if n in L]
    a = np.transpose(arr, order).reshape([s if n in L else 1 for n, s in zip(names, sizes)])
    return np.broadcast_to(a, sizes), logits_code(sig, L, arr)


def plan_mix(case, seed):
    _, sig, rank, L, RI, RR, order, edge = case
    pl = _base(case, seed)
    rs = [n for n, _ in reals_of(sig)]
    logw, lcode = _logw(pl, sig, L, seed, edge)
    red = coords(sig, RR)
    keptc = [k for k in range(sig_dim(sig)) if k not in red]
    pl.kept = [n for n in rs if n not in RR]
    pl.cond = G.block_cond(pl.P, red)
    Pm, em, cm = G.marginalize(pl.P, pl.eta, pl.c, red)
    axes = [pl.bnames.index(n) for n in RI]

    def ref(vec, Pm=Pm, em=em, cm=cm):
        v = _quad_ref(Pm, em, cm, keptc)(vec) + logw
        return G.logsumexp(v, axes)

    pl.ref = ref
    pl.quadratic = False
    pl.bsizes = [s for n, s in zip(pl.bnames, pl.bsizes) if n not in RI]
    pl.bnames = [n for n in pl.bnames if n not in RI]
    pl.setup += lcode
    if L is None:
        pl.setup += "m = g\n"
    else:
        pl.setup += "m = g + logits\n" if order == "gl" else "m = logits + g\n"
    pl.body = "r = m.reduce(ops.logaddexp, %s)\n" % _fs(list(RI) + list(RR))
    pl.features.update(
        logits=("none" if L is None else "".join(L)),
        logits_class="none" if L is None else ("all" if len(L) == len(batch_of(sig)) else "partial"),
        reduced_ints="".join(RI),
        reduced_reals=block_kind(sig, RR) if RR else "none",
        operand_order=order,
        edge=edge or "none",
    )
    return pl


def plan_intvar(case, seed):
    _, sig, rank, target, scope, RI, L, RM = case[:8]
    order = case[8] if len(case) > 8 else "gl"
    pl = _base(case, seed)
    rs = [n for n, _ in reals_of(sig)]
    shapes = dict(reals_of(sig))
    red_names = [target] if scope == "one" else list(rs)
    red = coords(sig, red_names)
    tcoords = offsets(sig)[target]
    keptc = [k for k in range(sig_dim(sig)) if k not in red]
    pl.kept = [n for n in rs if n not in red_names]
    pl.cond = G.block_cond(pl.P, red)
    logw, lcode = _logw(pl, sig, L, seed, None)
    axes = [pl.bnames.index(n) for n in list(RI) + list(RM)]
    tshape = shapes[target]

    def ref(vec):
        # condition on the kept coordinates, integrate x_target against the Gaussian over the reduced block
        if keptc:
            Pc, ec, cc = G.condition(pl.P, pl.eta, pl.c, keptc, np.asarray(vec)[keptc])
        else:
            Pc, ec, cc = pl.P, pl.eta, pl.c
        full = G.integrate_variable(Pc, ec, cc + logw)  # [..., len(red)]
        pos = [red.index(k) for k in tcoords]
        v = full[..., pos]
        v = v.sum(axis=tuple(axes)) if axes else v
        return v.reshape(v.shape[:-1] + tuple(tshape))

    pl.ref = ref
    pl.quadratic = False
    pl.out_shape = tuple(tshape)
    pl.bsizes = [s for n, s in zip(pl.bnames, pl.bsizes) if n not in RI and n not in RM]
    pl.bnames = [n for n in pl.bnames if n not in RI and n not in RM]
    pl.setup += lcode
    pl.setup += "m = g\n" if L is None else ("m = g + logits\n" if order == "gl" else "m = logits + g\n")
    if RM:  # a lazily reduced mixture: Contraction(logaddexp, add, {ints}, Tensor, Gaussian)
        pl.setup += "m = m.reduce(ops.logaddexp, %s)\n" % _fs(RM)
    var = 'Variable("%s", %s)' % (target, _domain_code("r", tshape))
    pl.body = "r = Integrate(m, %s, %s)\n" % (var, _fs(red_names + list(RI)))
    inner = bool(RM) or (scope == "all" and bool(RI) and len(rs) >= 2)
    pl.features.update(
        scope=scope,
        reduced_ints="".join(RI),
        measure="gaussian" if L is None else ("mixture:" + "".join(L) + ("/reduced:" + "".join(RM) if RM else "")),
        measure_class="gaussian" if L is None else ("reduced-mixture" if RM else "mixture"),
        measure_reduced_ints=inner,
        operand_order=order,
        reduces_shared_int=any(n in L for n in RI) if L is not None else False,
        reduces_gaussian_only_int=any(n not in L for n in RI) if L is not None else bool(RI),
    )
    if inner or L is not None:  # the measure that reaches the Integrate rules is a mixture with its own bound integer inputs
        pl.site = "Integrate:gaussian-mixture"
    return pl


def plan_intgauss(case, seed):
    _, sig, rank, sig2, rank2, RI, neg = case
    pl = _base(case, seed)
    dim = sig_dim(sig)
    wv2, ps2 = params(sig2, rank2, seed, tag=1)
    A, b, k = G.dense_from_sqrt(wv2, ps2)  # over sig2's coordinates and batch
    # embed into sig's coordinates
    off, off2 = offsets(sig), offsets(sig2)
    idx = [None] * sig_dim(sig2)
    for n, _ in reals_of(sig2):
        for a, bb in zip(off2[n], off[n]):
            idx[a] = bb
    A, b = G.embed(A, b, idx, dim)
    # joint batch: sig's batch inputs then the integrand's own
    names = list(pl.bnames)
    sizes = list(pl.bsizes)
    for n, s in batch_of(sig2):
        if n not in names:
            names.append(n)
            sizes.append(s)

    def lift(arr, own, extra):
        own = list(own)
        order = [own.index(n) for n in names if n in own]
        arr = np.transpose(arr, order + list(range(len(own), arr.ndim)))
        shape = [s if n in own else 1 for n, s in zip(names, sizes)]
        return arr.reshape(shape + list(arr.shape[len(own):]))

    b1 = pl.bnames
    b2 = [n for n, _ in batch_of(sig2)]

    def expect(A, b, k):
        return G.integrate_quadratic(
            lift(pl.P, b1, 2), lift(pl.eta, b1, 1), lift(pl.c, b1, 0), lift(A, b2, 2), lift(b, b2, 1), lift(k, b2, 0)
        )

    val = expect(A, b, k)
    if neg == "diff":  # integrand g2 - g3: a lazy sum of a Gaussian and a negated Gaussian
        wv3, ps3 = params(sig2, rank2, seed, tag=2)
        A3, b3, k3 = G.dense_from_sqrt(wv3, ps3)
        A3, b3 = G.embed(A3, b3, idx, dim)
        val = val - expect(A3, b3, k3)
        pl.setup += gaussian_code("g3", sig2, wv3, ps3)
    elif neg:
        val = -val
    val = np.broadcast_to(val, sizes)
    axes = tuple(names.index(n) for n in RI)
    val = val.sum(axis=axes) if axes else val
    pl.cond = G.block_cond(pl.P, range(dim))
    pl.ref = lambda vec: val
    pl.bsizes = [s for n, s in zip(names, sizes) if n not in RI]
    pl.bnames = [n for n in names if n not in RI]
    pl.setup += gaussian_code("g2", sig2, wv2, ps2)
    rs = [n for n, _ in reals_of(sig)]
    integrand = {False: "g2", True: "-g2", "diff": "g2 - g3"}[neg]
    pl.body = "r = Integrate(g, %s, %s)\n" % (integrand, _fs(rs + list(RI)))
    pl.features.update(
        integrand_order=order_text(sig2),
        integrand_batch="none" if not b2 else ("shared" if all(n in b1 for n in b2) else "own"),
        integrand_rank_minus_dim=rank2 - sig_dim(sig2),
        reduced_ints="".join(RI),
        negated=neg,
    )
    return pl


def _joint_batch(sig, sig2):
    names = [n for n, _ in batch_of(sig)]
    sizes = [s for _, s in batch_of(sig)]
    for n, s in batch_of(sig2):
        if n not in names:
            names.append(n)
            sizes.append(s)
    return names, sizes


def _lift(arr, own, names, sizes):
    """Batch dims ``own`` of arr -> broadcastable against the joint batch ``names``."""
    own = list(own)
    arr = np.asarray(arr)
    order = [own.index(n) for n in names if n in own]
    arr = np.transpose(arr, order + list(range(len(own), arr.ndim)))
    shape = [s if n in own else 1 for n, s in zip(names, sizes)]
    return arr.reshape(shape + list(arr.shape[len(own):]))


def _logits_for(sig, L, seed, var, tag):
    """(array over L, code) of a logits Tensor named ``var`` over the batch inputs L of sig (L may be empty)."""
    sizes = dict(batch_of(sig))
    shape = tuple(sizes[n] for n in L)
    arr = generic_fill(_leaf_id(tag, sig, len(L)), shape, seed) - 1.0
    ins = "OrderedDict([%s])" % ", ".join('("%s", Bint[%d])' % (n, sizes[n]) for n in L)
    return arr, "%s = Tensor(%s, %s)\n" % (var, _arr_code(arr), ins)


def plan_contract(case, seed):
    """Contraction(logaddexp, add, vars, a, b): a, b Gaussians or Gaussian mixtures (cnf.py mixture contraction)."""
    _, sig, rank, sig2, rank2, LA, LB, RI, RR = case
    pl = _base(case, seed)
    dim = sig_dim(sig)
    rs = [n for n, _ in reals_of(sig)]
    wv2, ps2 = params(sig2, rank2, seed, tag=1)
    A, b, k = G.dense_from_sqrt(wv2, ps2)
    off, off2 = offsets(sig), offsets(sig2)
    idx = [None] * sig_dim(sig2)
    for n, _ in reals_of(sig2):
        for a_, b_ in zip(off2[n], off[n]):
            idx[a_] = b_
    A, b = G.embed(A, b, idx, dim)
    names, sizes = _joint_batch(sig, sig2)
    b1 = [n for n, _ in batch_of(sig)]
    b2 = [n for n, _ in batch_of(sig2)]
    P = _lift(pl.P, b1, names, sizes) + _lift(A, b2, names, sizes)
    eta = _lift(pl.eta, b1, names, sizes) + _lift(b, b2, names, sizes)
    c = _lift(pl.c, b1, names, sizes) + _lift(k, b2, names, sizes)
    pl.setup += gaussian_code("g2", sig2, wv2, ps2)
    pl.setup += "a = g\n" if LA is None else ""
    pl.setup += "b = g2\n" if LB is None else ""
    if LA is not None:
        arr, code = _logits_for(sig, LA, seed, "logits_a", 4)
        c = c + _lift(arr, LA, names, sizes)
        pl.setup += code + "a = g + logits_a\n"
    if LB is not None:
        arr, code = _logits_for(sig2, LB, seed, "logits_b", 5)
        c = c + _lift(arr, LB, names, sizes)
        pl.setup += code + "b = g2 + logits_b\n"
    P = np.broadcast_to(P, tuple(sizes) + P.shape[-2:])
    eta = np.broadcast_to(eta, tuple(sizes) + eta.shape[-1:])
    c = np.broadcast_to(c, tuple(sizes))
    red = coords(sig, RR)
    keptc = [q for q in range(dim) if q not in red]
    pl.kept = [n for n in rs if n not in RR]
    pl.cond = G.block_cond(P, red)
    Pm, em, cm = G.marginalize(P, eta, c, red)
    axes = [names.index(n) for n in RI]
    pl.ref = lambda vec: G.logsumexp(_quad_ref(Pm, em, cm, keptc)(vec), axes)
    pl.quadratic = not RI
    pl.bsizes = [s for n, s in zip(names, sizes) if n not in RI]
    pl.bnames = [n for n in names if n not in RI]
    shapes = dict(reals_of(sig))
    doms = dict((n, _domain_code("b", s)) for n, s in zip(names, sizes))
    doms.update((n, _domain_code("r", shapes[n])) for n in rs)
    vs = ", ".join('Variable("%s", %s)' % (n, doms[n]) for n in sorted(list(RR) + list(RI)))
    pl.body = "r = Contraction(ops.logaddexp, ops.add, frozenset({%s}), a, b)\n" % vs
    pl.features.update(
        operands=("gaussian" if LA is None else "mixture") + "*" + ("gaussian" if LB is None else "mixture"),
        second_order=order_text(sig2),
        second_batch="none" if not b2 else ("shared" if all(n in b1 for n in b2) else "own"),
        second_rank_minus_dim=rank2 - sig_dim(sig2),
        reduced_ints="".join(RI),
        reduced_reals=block_kind(sig, RR),
    )
    return pl


HIST_TOUCH = ("none", "lognorm", "margall", "margpart", "integrate", "moment")
# every lazy_property of Gaussian, materialised directly (used with the SAME-object histories)
HIST_ATTRS = ("_precision", "_precision_chol", "_covariance", "_scale_tril", "_mean", "_info_vec", "_log_normalizer")
HIST_RENAME = ("int", "real", "int+real", "swap", "swapreal", "index")
HIST_FINAL = ("margall", "margpart", "lognorm", "plate", "mix")
# finals run on the very same object that was touched (substitution step "same")
HIST_FINAL_SAME = HIST_FINAL + ("plate-lognorm", "plate-all", "mixints", "intgauss", "intvar")


def plan_hist(case, seed):
    """History on ONE object: touch a cached property of g0, substitute (rename / swap / index), then run a final
    operation on the substituted Gaussian.  The reference is the closed form of the substituted Gaussian alone: the
    outcome must not depend on what was computed before the substitution."""
    _, sig, rank, touch, rename, final = case
    wv, ps = params(sig, rank, seed)
    rs = [n for n, _ in reals_of(sig)]
    bs = batch_of(sig)
    bn = [n for n, _ in bs]
    # 1. touch
    if touch == "none":
        tcode = ""
    elif touch == "lognorm":
        tcode = "_t = g0.log_normalizer\n"
    elif touch == "margall":
        tcode = "_t = g0.reduce(ops.logaddexp, %s)\n" % _fs(rs)
    elif touch == "margpart":
        tcode = "_t = g0.reduce(ops.logaddexp, %s)\n" % _fs(rs[:1])
    elif touch == "integrate":  # reads _mean, _log_normalizer, _precision_chol
        tcode = "_t = Integrate(g0, g0, %s)\n" % _fs(rs)
    elif touch.startswith("attr:"):
        tcode = "_t = g0.%s\n" % touch[5:]
    elif "+" in touch:  # two touches in a row
        a, b = touch.split("+")
        tcode = {"lognorm": "_t = g0.log_normalizer\n", "margall": "_t = g0.reduce(ops.logaddexp, %s)\n" % _fs(rs),
                 "plate": "_t = g0.reduce(ops.add, %s)\n" % _fs(bn[:1])}
        tcode = tcode[a] + tcode[b]
    elif touch == "moment":  # reads _mean, _covariance, log_normalizer
        tcode = '_w0 = Tensor(np.zeros(%d), OrderedDict([("%s", Bint[%d])]))\n' % (bs[0][1], bn[0], bs[0][1])
        tcode += "with moment_matching:\n    _t = (g0 + _w0).reduce(ops.logaddexp, %s)\n" % _fs(bn[:1])
    else:
        raise ValueError(touch)
    # 2. substitution
    wv2, ps2 = wv, ps
    if rename == "same":
        sig2 = tuple(sig)
        rcode = "g = g0\n"
    elif rename == "index":
        k = bs[0][1] - 1
        sig2 = tuple(e for e in sig if e[0] != bn[0])
        wv2, ps2 = np.ascontiguousarray(np.take(wv, k, axis=0)), np.ascontiguousarray(np.take(ps, k, axis=0))
        rcode = "g = g0(%s=%d)\n" % (bn[0], k)
    else:
        ren = {
            "int": {bn[0]: "k"},
            "real": {rs[0]: "w"},
            "int+real": {bn[0]: "k", rs[0]: "w"},
            "swap": {bn[0]: bn[-1], bn[-1]: bn[0]},
            "swapreal": {rs[0]: rs[-1], rs[-1]: rs[0]},
        }[rename]
        sig2 = tuple((ren.get(n, n), kd, sp) for n, kd, sp in sig)
        rcode = "g = g0(%s)\n" % ", ".join('%s="%s"' % kv for kv in sorted(ren.items()))
    rs2 = [n for n, _ in reals_of(sig2)]
    bn2 = [n for n, _ in batch_of(sig2)]
    inner = {
        "margall": ["marg", sig2, rank, rs2, "after", []],
        "margpart": ["marg", sig2, rank, rs2[:1], "after", []],
        "lognorm": ["lognorm", sig2, rank],
        "plate": ["plate", sig2, rank, bn2[:1], []],
        "mix": ["mix", sig2, rank, list(bn2), bn2[:1], list(rs2), "gl", None],
        "plate-lognorm": ["plate", sig2, rank, bn2[:1], list(rs2)],
        "plate-all": ["plate", sig2, rank, list(bn2), []],
        "mixints": ["mix", sig2, rank, list(bn2), bn2[:1], [], "gl", None],
        "intgauss": ["intgauss", sig2, rank, tuple(e for e in sig2 if e[1] == "r"), sig_dim(sig2), [], False],
        "intvar": ["intvar", sig2, rank, rs2[0], "one", [], None, []],
    }[final]
    _OVERRIDE[(sig2, rank)] = (wv2, ps2)
    try:
        pl = PLANNERS[inner[0]](inner, seed)
    finally:
        _OVERRIDE.clear()
    prefix = gaussian_code("g", sig2, wv2, ps2)
    assert pl.setup.startswith(prefix) and not pl.pre
    pl.body = tcode + rcode + pl.setup[len(prefix):] + pl.body
    pl.setup = gaussian_code("g0", sig, wv, ps)
    pl.features.update(kind="hist", inner_kind=inner[0], touch=touch, rename=rename, final=final, order=order_text(sig))
    pl.site = "history:cached-property-after-substitution"
    return pl


PLANNERS = {
    "hist": plan_hist,
    "contract": plan_contract,
    "marg": plan_marg,
    "marg2": plan_marg2,
    "lognorm": plan_lognorm,
    "plate": plan_plate,
    "mix": plan_mix,
    "intvar": plan_intvar,
    "intgauss": plan_intgauss,
}


def snippet(pl, vec=None, expected=None, note=""):
    s = HEADER + pl.setup
    names = list(pl.pre) + list(pl.kept)
    if vec is not None and names:
        s += point_code(pl.sig, names, vec)
    s += pl.body
    if vec is not None and pl.kept:
        s += "print(r(%s))\n" % _subs_code(pl.kept)
    else:
        s += "print(r)\n"
    if expected is not None:
        s += "# expected (dense closed form), batch inputs %s: %s\n" % (list(pl.bnames), np.asarray(expected).tolist())
    if note:
        s += "# " + note + "\n"
    return s


def _run_body(pl, ns, vec):
    if pl.pre:
        set_points(ns, pl.sig, pl.pre, vec)
    exec(pl.body, ns)
    return ns["r"]


def _lattice(pl, seed):
    names = list(pl.pre) + list(pl.kept)
    cs = coords(pl.sig, names)
    dim = sig_dim(pl.sig)
    if not cs:
        return [np.zeros(dim)]
    steps = steps_for(len(cs), seed)
    pts = []
    lat = G.lattice(len(cs), steps[: len(cs)])
    if not pl.quadratic:  # the result is not a quadratic: 0, every axis point, one mixed point, the all-ones point
        n = len(cs)
        lat = lat[: n + 1] + ([lat[n + 2]] if n >= 2 else []) + ([np.asarray(steps[:n], dtype=np.float64)] if n >= 3 else [])
    for p in lat:
        v = np.zeros(dim)
        v[cs] = p
        pts.append(v)
    return pts


def check_value_case(case, seed, key):
    kind = case[0]
    try:
        pl = PLANNERS[kind](case, seed)
    except np.linalg.LinAlgError:
        return core.skip(key, "reference-ill-conditioned")
    site = pl.site or SITES[kind]
    dim = sig_dim(pl.sig)
    if not pl.domain:
        return check_negative_plan(case, pl, key, "plate-then-marginalise", seed)
    if not pl.cond <= COND_LIMIT:
        return core.skip(key, "reference-ill-conditioned")
    demanded = kind in COMPLETION_DEMANDED and pl.rank >= dim
    ns = namespace()
    exec(pl.setup, ns)
    pts = _lattice(pl, seed)
    r = None
    n_cmp = 0
    for vec in pts:
        expected = np.asarray(pl.ref(vec), dtype=np.float64)
        if np.any(np.isnan(expected)):
            return core.skip(key, "reference-undefined")
        try:
            if r is None or pl.pre:
                r = _run_body(pl, ns, vec)
            actual = ground(r, pl.sig, pl.kept, vec, pl.bnames, pl.bsizes, pl.out_shape, ns)
        except Mismatch as m:
            f = vfeat(pl, m.what)
            return _violation(pl, key, site, "%s: %s" % (m.what, m), case, f, snippet(pl, vec, expected))
        except Exception as ex:  # raised, or still lazy after binding everything
            why = ("lazy:" + str(ex)) if isinstance(ex, Lazy) else "raised:" + type(ex).__name__
            if demanded:
                f = vfeat(pl, "declined", why=why)
                return _violation(pl, 
                    key,
                    site + ":declined",
                    "full-rank input (rank %d >= dim %d) but the operation did not complete: %s %s"
                    % (pl.rank, dim, why, str(ex)[:200]),
                    case,
                    f,
                    snippet(pl, vec, expected, "expected to complete; observed " + why),
                )
            return core.decline(key, kind + ":" + why, transitions=1)
        full = tuple(pl.bsizes) + tuple(pl.out_shape)
        expected = np.broadcast_to(expected, full)
        n_cmp += 1
        if not G.close(actual, expected, RTOL, ATOL):
            f = vfeat(pl, "value")
            return _violation(pl, 
                key,
                site,
                "value differs from the dense closed form: funsor %s, reference %s"
                % (np.asarray(actual).tolist(), expected.tolist()),
                case,
                f,
                snippet(pl, vec, expected),
            )
    cls = "ok:%s:%s" % (kind, _class_of(pl, r))
    if kind == "hist":  # non-trivial only when something was computed on the object before the substitution
        return core.ok(key, pl.features["touch"] != "none", cls, transitions=pl.body.count("\n") + 1 + n_cmp)
    return core.ok(key, True, cls, transitions=pl.body.count("\n") + pl.setup.count("= g") + n_cmp)


def _class_of(pl, r):
    f = pl.features
    bits = [type(r).__name__.split("[")[0]]
    for k in ("touch", "rename", "final"):
        if k in f:
            bits.append(str(f[k]))
    if "touch" in f:
        return ",".join(bits)
    for k in ("block", "mode", "then_marginalise", "scope", "measure", "operands", "second_batch", "reduced_reals", "edge",
              "negated", "integrand_batch"):
        if k in f:
            bits.append(str(f[k]))
    bits.append("rank%+d" % f["rank_minus_dim"])
    return ",".join(bits)


# -- negative cases ---------------------------------------------------------------------------------------------


def plan_negative(case, seed):
    _, sig, rank, what, A, B = case
    rs = [n for n, _ in reals_of(sig)]
    bs = [n for n, _ in batch_of(sig)]
    pl = _base(["neg", sig, rank], seed)
    pl.features.update(kind="neg", op=what)
    pl.kept = []
    if what == "marg":
        pl.kept = [n for n in rs if n not in A]
        pl.body = "r = g.reduce(ops.logaddexp, %s)\n" % _fs(A)
        pl.features.update(block=block_kind(sig, A), rank_minus_block=rank - len(coords(sig, A)))
    elif what == "marg-before":
        pl.pre = [n for n in rs if n not in A]
        pl.body = "r = g(%s).reduce(ops.logaddexp, %s)\n" % (_subs_code(pl.pre), _fs(A))
        pl.features.update(block=block_kind(sig, A), rank_minus_block=rank - len(coords(sig, A)))
    elif what == "marg2":
        pl.kept = [n for n in rs if n not in A and n not in B]
        pl.body = "r1 = g.reduce(ops.logaddexp, %s)\nr = r1.reduce(ops.logaddexp, %s)\n" % (_fs(A), _fs(B))
        pl.features.update(
            rank_minus_block=rank - len(coords(sig, list(A) + list(B))),
            columns_cover_second_block=bool(rank >= len(coords(sig, B))),
            first_block_dim=len(coords(sig, A)),
        )
    elif what == "lognorm":
        pl.body = "r = g.log_normalizer\n"
    elif what == "mix":
        arr = logits_array(sig, A, seed, None)
        pl.setup += logits_code(sig, A, arr) + "m = g + logits\n"
        pl.body = "r = m.reduce(ops.logaddexp, %s)\n" % _fs(list(A) + list(B))
    elif what == "intvar":
        shapes = dict(reals_of(sig))
        pl.body = 'r = Integrate(g, Variable("%s", %s), %s)\n' % (A[0], _domain_code("r", shapes[A[0]]), _fs(A))
    elif what == "intgauss":
        sig2 = tuple((n, "r", s) for n, s in reals_of(sig))
        wv2, ps2 = params(sig2, sig_dim(sig2), seed, tag=1)
        pl.setup += gaussian_code("g2", sig2, wv2, ps2)
        pl.body = "r = Integrate(g, g2, %s)\n" % _fs(A)
    elif what == "moment":
        arr = logits_array(sig, A, seed, None)
        pl.setup += logits_code(sig, A, arr) + "m = g + logits\n"
        pl.body = "with moment_matching:\n    r = m.reduce(ops.logaddexp, %s)\n" % _fs(A)
        pl.kept = list(rs)
        pl.bsizes = [s for n, s in zip(pl.bnames, pl.bsizes) if n not in A]
        pl.bnames = [n for n in pl.bnames if n not in A]
    else:
        raise ValueError(what)
    if what in ("mix",):
        pl.bsizes = [s for n, s in zip(pl.bnames, pl.bsizes) if n not in A]
        pl.bnames = [n for n in pl.bnames if n not in A]
    return pl


def numbers_of(r, sig, vec, ns):
    """Bind every real input of ``r`` and return its numbers, or raise Lazy."""
    Funsor, Number = ns["funsor"].terms.Funsor, ns["funsor"].terms.Number
    if not isinstance(r, Funsor):
        raise Lazy("not-a-funsor:" + type(r).__name__)
    off = offsets(sig)
    shapes = dict(reals_of(sig))
    subs = {}
    for n, d in r.inputs.items():
        if d.dtype == "real":
            if n not in shapes:
                raise Lazy("foreign-real-input")
            subs[n] = ns["Tensor"](np.array(np.asarray(vec)[off[n]].reshape(shapes[n]), dtype=np.float64))
    t = r(**subs) if subs else r
    if isinstance(t, (Number, ns["Tensor"])):
        return np.asarray(t.data, dtype=np.float64)
    raise Lazy(type(t).__name__.split("[")[0])


def check_negative_plan(case, pl, key, what, seed):
    """The Gaussian carries too little information for the operation: it must not produce numbers."""
    ns = namespace()
    pts = _lattice(pl, seed)
    vec = pts[min(1, len(pts) - 1)]
    try:
        exec(pl.setup, ns)
        r = _run_body(pl, ns, vec)
    except Exception as ex:
        return core.ok(key, True, "refused:%s:raised:%s" % (what, type(ex).__name__), transitions=1)
    try:
        actual = numbers_of(r, pl.sig, vec, ns)
    except Lazy as ex:
        return core.ok(key, True, "refused:%s:lazy:%s" % (what, ex), transitions=1)
    except Exception as ex:
        return core.ok(key, True, "refused:%s:raised-on-evaluation:%s" % (what, type(ex).__name__), transitions=1)
    if actual.size and not np.any(np.isfinite(actual)):
        return core.ok(key, True, "refused:%s:non-finite" % what, transitions=1)
    f = vfeat(pl, "number-returned")
    return _violation(pl, 
        key,
        SITES["neg"],
        "rank %d is too small for this operation (it needs more information than the Gaussian carries) but numbers "
        "were returned: %s" % (pl.rank, actual.reshape(-1)[:6].tolist()),
        case,
        f,
        snippet(pl, vec if (pl.pre or pl.kept) else None, None, "expected: an exception (ValueError)"),
    )


# -- moment matching --------------------------------------------------------------------------------------------


def check_moment(case, seed, key):
    _, sig, rank, L, RI, RR, edge = case
    pl = _base(case, seed)
    rs = [n for n, _ in reals_of(sig)]
    dim = sig_dim(sig)
    logw, lcode = _logw(pl, sig, L, seed, edge)
    red = coords(sig, RR)
    keptc = [k for k in range(dim) if k not in red]
    pl.kept = [n for n in rs if n not in RR]
    cond = G.block_cond(pl.P, range(dim))
    if not cond <= COND_LIMIT:
        return core.skip(key, "reference-ill-conditioned")
    axes = [pl.bnames.index(n) for n in RI]
    Pm, em, cm = G.marginalize(pl.P, pl.eta, pl.c, red)
    full_bnames, full_bsizes = list(pl.bnames), list(pl.bsizes)
    pl.bsizes = [s for n, s in zip(full_bnames, full_bsizes) if n not in RI]
    pl.bnames = [n for n in full_bnames if n not in RI]
    pl.setup += lcode + "m = g + logits\n"
    pl.body = "with moment_matching:\n    r = m.reduce(ops.logaddexp, %s)\n" % _fs(list(RI) + list(RR))
    n_comp = int(np.prod([full_bsizes[a] for a in axes]))
    pl.features.update(
        logits="".join(L),
        reduced_ints="".join(RI),
        reduced_reals=block_kind(sig, RR) if RR else "none",
        components=n_comp,
        reduced_reals_any=bool(RR),
        edge=edge or "none",
    )
    site = SITES["moment"]
    ns = namespace()
    exec(pl.setup, ns)
    if keptc:
        ref_mass, ref_mean, ref_cov = G.mixture_moments(Pm, em, cm, logw, axes)
    else:
        ref_mass = G.logsumexp(cm + logw, axes)
    pts = _lattice(pl, seed)
    extra = np.zeros(dim)
    if keptc:
        extra[keptc] = -0.37 * steps_for(len(keptc), seed)[: len(keptc)] - 0.11
    try:
        r = _run_body(pl, ns, pts[0])
        vals = [ground(r, sig, pl.kept, v, pl.bnames, pl.bsizes, (), ns) for v in pts]
        val_extra = ground(r, sig, pl.kept, extra, pl.bnames, pl.bsizes, (), ns)
    except Mismatch as m:
        return _violation(pl, key, site, "%s: %s" % (m.what, m), case, vfeat(pl, m.what), snippet(pl, pts[0]))
    except Exception as ex:
        why = ("lazy:" + str(ex)) if isinstance(ex, Lazy) else "raised:" + type(ex).__name__
        return core.decline(key, "moment:" + why, transitions=1)
    vals = np.asarray(vals, dtype=np.float64)
    if not keptc:
        if not G.close(vals[0], ref_mass, RTOL, ATOL):
            return _violation(pl, 
                key,
                site,
                "total log-mass differs: funsor %s, mixture %s" % (vals[0].tolist(), np.asarray(ref_mass).tolist()),
                case,
                vfeat(pl, "mass"),
                snippet(pl, None, ref_mass),
            )
        return core.ok(key, n_comp > 1, "ok:moment:mass-only", transitions=3)
    live = np.isfinite(ref_mass)  # kept batch entries whose mixture has positive mass
    if not np.all(live):
        dead = vals[:, ~live]
        if not np.all(dead == -np.inf):
            return _violation(pl, 
                key,
                site,
                "zero-mass mixture but the matched result is not -inf: %s" % dead.reshape(-1)[:4].tolist(),
                case,
                vfeat(pl, "mass"),
                snippet(pl, pts[0]),
            )
        if not np.any(live):
            return core.ok(key, False, "ok:moment:all-dead", transitions=3)
    sub = [v[keptc] for v in pts]
    lv = vals[:, live]  # (points, n_live)
    P2, e2, c2 = G.fit_quadratic(sub, lv)
    # is the result a single quadratic (one Gaussian + constant)?
    fitted_extra = G.evaluate(P2, e2, c2, extra[keptc])
    exact = lambda v: G.logsumexp(_quad_ref(Pm, em, cm, keptc)(v) + logw, axes)  # noqa: E731
    if not G.close(np.asarray(val_extra)[live], fitted_extra, 1e-5, 1e-6):
        # not a quadratic: the mixture was kept exact (no approximation was made) -> compare with the exact mixture
        for v, a in zip(pts + [extra], list(vals) + [val_extra]):
            if not G.close(np.asarray(a)[live], np.asarray(exact(v))[live], RTOL, ATOL):
                return _violation(pl, 
                    key,
                    site,
                    "result is neither a single Gaussian nor the exact mixture: funsor %s, exact %s"
                    % (np.asarray(a).tolist(), np.asarray(exact(v)).tolist()),
                    case,
                    vfeat(pl, "value"),
                    snippet(pl, v, exact(v)),
                )
        return core.ok(key, False, "ok:moment:kept-exact", transitions=3)
    if G.block_cond(P2, range(len(keptc))) > COND_LIMIT:
        return _violation(pl, 
            key,
            site,
            "moment-matched result is not a normalisable Gaussian (fitted precision %s)" % P2.tolist(),
            case,
            vfeat(pl, "not-normalisable"),
            snippet(pl, pts[1]),
        )
    mass = G.log_normalizer(P2, e2, c2)
    mean, cov = G.mean_cov(P2, e2)
    for what, a, b in (
        ("mass", mass, np.asarray(ref_mass)[live]),
        ("mean", mean, np.asarray(ref_mean)[live]),
        ("covariance", cov, np.asarray(ref_cov)[live]),
    ):
        if not G.close(a, b, 1e-6, 1e-7):
            return _violation(pl, 
                key,
                site,
                "moment matching does not preserve the %s of the mixture: matched %s, mixture %s"
                % (what, np.asarray(a).tolist(), np.asarray(b).tolist()),
                case,
                vfeat(pl, what),
                snippet(
                    pl,
                    pts[1],
                    None,
                    "mixture (reduced over %s): log-mass %s mean %s covariance %s; the printed value is the matched "
                    "log-density at one point; fit it on the lattice to read mass/mean/covariance"
                    % (list(RI), np.asarray(ref_mass).tolist(), np.asarray(ref_mean).tolist(), np.asarray(ref_cov).tolist()),
                ),
            )
    cls = "ok:moment:%s,comp%d,%s,%s" % (type(r).__name__.split("[")[0], n_comp, pl.features["reduced_reals"], edge or "-")
    return core.ok(key, n_comp > 1, cls, transitions=3 + len(pts))


def check(case, seed):
    case = tuplify(case)
    case = tuple(_listify(c) for c in case)
    key = repr(case)
    kind = case[0]
    if kind == "neg":
        pl = plan_negative(case, seed)
        return check_negative_plan(case, pl, key, case[3], seed)
    if kind == "moment":
        return check_moment(case, seed, key)
    return check_value_case(case, seed, key)


def _listify(x):
    """Inner name lists as lists, the signature as a tuple of (name, kind, spec) with tuple shapes."""
    if isinstance(x, tuple) and x and isinstance(x[0], tuple):  # signature
        return tuple((n, k, tuple(s) if isinstance(s, (tuple, list)) else s) for n, k, s in x)
    if isinstance(x, tuple):
        return list(x)
    return x
