"""C18 -- compiled and traced programs compute what interpretation computes.

Explorer E-prog over the compiler's fragment.  Every enumerated expression descriptor (fv.ref.c18lang) is built as a
lazy funsor through the public API, compiled with ``compile_funsor`` and the resulting ``OpProgram`` is run

    * directly,                         * after ``pickle.loads(pickle.dumps(program))``,
    * as ``exec(program.as_code())``,   * with each input dropped / an unknown input added (must be rejected),

and compared at every binding with (i) the numpy reference evaluation of the *descriptor* (c18lang.ref_eval, shares
no code with funsor) and (ii) funsor substitution ``expr(**{k: Tensor(v)})`` (the statement's own right-hand side).
``trace`` cases turn the same descriptors into straight-line python functions of ``funsor.ops`` (source text that is
exec'd, so the recorded snippet is the function that ran) and push ``trace_function(fn, example)`` through the same
oracle.
"""
import pickle
import re

import numpy as np

from .. import core
from ..ref import c18lang as L

ID = "C18"
LEVEL_RULE = (
    "expression descriptors enumerated by level, simplest first.  'core' alphabet (leaves a:Real, b:Reals[2], "
    "Number 2.5, Tensor[2]; neg, sum; sub, truediv; add-contraction of 2 and 3 terms; tuples): EVERY term of depth "
    "<= 2, no pruning (unary(x), binary(x, y) for all x, y of depth <= 1 including x = y, so every shared-subterm "
    "DAG shape of that depth occurs); thorough adds depth 3 = constructors over (level-2 pool x companion) in both "
    "operand orders, level-2 pool = first term per (root op, operand heads, identical-operand pattern, input names, "
    "output shape), companion = leaves + first level-1 term per (root op, output shape).  'wide' (quick) / 'full' "
    "(thorough) alphabet with every op of the fragment: level 1 complete over the leaf alphabet (all ordered pairs, "
    "3-term contractions, tuples); level n+1 = the light op alphabet (every non-commutative op, add, neg, exp, sum, "
    "one reshape, two slices, getitem, contractions) over (level-n pool x companion) in both operand orders plus "
    "op(x, x); level-1 pool = first term per (root op, output shape) [quick] / (root op, parameter, input names, "
    "output shape) [thorough]; level-2 pool (thorough) = first term per (root op, output shape); companion = leaves "
    "+ first level-1 term per (node kind, output shape).  Plus 10 hand-written DAG shapes.  trace cases: the base "
    "variant of every descriptor with <= 4 ops, <= 3 inputs and no tuple; one deviation at a time (op parameters "
    "passed positionally / by keyword, right-to-left evaluation order, a dead op, reversed kwargs, an unused kwarg "
    "before / after, allow_constants flipped) for the first descriptor per (root op, parameter, input names, "
    "output shape, shared bit, constant kinds).  names cases: 4 programs x input names that collide with the "
    "printer's locals.  A case is non-trivial when the program has >= 1 operation and every route (call, pickle, "
    "printed source, rejection) was compared with a defined reference at >= 1 binding; distinct = distinct case text"
)
ASSUMPTIONS = [
    "numpy backend; FUNSOR_DEBUG/PROFILE off",
    "real contents fixed by the generic fill (function of VERIF_SEED), two fills per program; bounded-integer "
    "inputs take every value of their range",
    "reference = numpy evaluation of the descriptor (c18lang.ref_eval, unit-tested in tests/test_c18.py); bindings "
    "where any intermediate of the reference is non-finite (log/sqrt/pow of a negative, division by zero, overflow) "
    "or where the reference is ill-conditioned (moves > tol/10 under a 1e-13 relative perturbation) are skipped",
    "float comparison |a-b| <= 1e-9 + 1e-7|b|",
    "every call of a compiled / unpickled / traced / printed program is made with the binding as an explicit dict in "
    "every keyword order (all permutations for <= 3 inputs; declared order, reverse and one rotation beyond)",
    "'rejected' = any exception; a returned value for a missing/unknown input is the violation (the unchanged tree "
    "raises ValueError, recorded in the outcome classes)",
    "tracing a function that returns a tuple is not claimed by the library (test_tracer.py::test_tuple is xfail) "
    "and is not enumerated",
]

FILLS = 2
# Sites of the defects of the unchanged tree.  Their violations carry exactly these features (one signature per
# defect), so that thousands of reproductions cannot crowd a new violation out of the report.
KNOWN_SITE_FEATURES = {
    "as_code:array-constant": {"has_array_constant": True},
    "as_code:input-name-capture": {"input_names_shadow_locals": True},
    "trace_function:root-is-leaf": {"root_is_leaf_but_not_last_slot": True},
    "trace_function:op-kwargs": {"has_keyword_op_parameter": True},
}
_SHADOW = re.compile(r"^(v\d+|ops|set_backend)$")


# ---------------------------------------------------------------------------
# enumeration


def bounds(tier):
    b = {
        "depth": 3 if tier == "thorough" else 2,
        "fills_per_program": FILLS,
        "core_alphabet": _alpha_sizes("core"),
        "wide_alphabet": _alpha_sizes("full" if tier == "thorough" else "wide"),
        "trace": {"max_ops": 4, "max_inputs": 3},
        "pruning": "see coverage.rule; pool sizes below are measured",
    }
    b.update(_CORPUS_STATS.get(tier, {}))
    return b


def _alpha_sizes(name):
    al = L.alphabet(name)
    return {
        "leaves": len(al["leaves"]),
        "unary": len(al["pointwise"]) + len(al["sum"]) + len(al["reshape"]) + len(al["slices"]),
        "binary": len(al["binary"]) + len(al["getitem"]),
        "contraction_ops": len(al["con"]),
    }


_CORPUS = {}
_CORPUS_STATS = {}


def _tuples(pool, k3):
    out = []
    reals = [x for x in pool if L.ty(x)[0] == "real"]
    for x in reals:
        for y in reals:
            out.append(("tup", (x, y)))
    for x, y, z in k3:
        out.append(("tup", (x, y, z)))
    return out


def dag_shapes():
    """Hand-written DAG shapes (a sub-term used twice / at two depths), present in both tiers."""
    a, b, c, d = L.V("a"), L.V("b"), L.V("c"), L.V("d")
    s = ("b", "sub", a, b)
    f = ("u", "exp", None, a)
    m = ("b", "matmul", c, d)
    return [
        ("b", "truediv", s, s),  # (a-b)/(a-b)
        ("b", "sub", f, ("b", "mul", f, b)),  # f(x) - f(x)*y
        ("b", "truediv", ("u", "neg", None, s), ("u", "exp", None, s)),  # diamond
        ("b", "sub", a, ("b", "truediv", a, ("u", "neg", None, a))),  # one leaf at three depths
        ("b", "pow", ("b", "truediv", s, b), ("b", "truediv", b, s)),  # two users, operands swapped
        ("tup", (s, ("u", "neg", None, s), s)),
        ("con", "add", (s, s, b)),
        ("b", "sub", m, ("b", "truediv", ("ten", 1, (2,)), m)),  # shared matmul next to a constant
        ("b", "sub", ("b", ("getitem", 1), c, L.I("j")), ("u", "sum", -1, c)),
        ("b", "truediv", ("b", "sub", ("num", 2.5), a), ("b", "sub", a, ("num", 2.5))),  # one constant, two users
    ]


def expressions(tier):
    """Deterministic list of expression descriptors, simplest first, with per-level statistics."""
    if tier in _CORPUS:
        return _CORPUS[tier]
    stats = {}
    thorough = tier == "thorough"

    # -- core alphabet: depth <= 2 without pruning (thorough: depth 3 from the pruned level-2 pool)
    al = L.alphabet("core")
    seen = set()
    l0 = L._dedup(al["leaves"], seen)
    l1 = L.level_up(l0, l0, al, seen)
    l1 += L._dedup([("con", "add", (x, y, z)) for x in l0[:3] for y in l0[:3] for z in l0[:3]], seen)
    t1 = L._dedup(_tuples(l0, [(l0[2], l0[0], l0[1]), (l0[1], l0[1], l0[0])]) + [("tup", (x,)) for x in l0], seen)
    l2 = L.level_up(l1, l0 + l1, al, seen)
    p1 = L.prune(l1, L.key_op_inputs_shape)
    t2 = L._dedup(_tuples(p1, [(p1[0], l0[0], p1[0]), (l0[1], p1[-1], p1[1])]) + [("tup", (x,)) for x in p1], seen)
    core_terms = l0 + l1 + t1 + l2 + t2
    shapes = [e for e in dag_shapes() if L.well_typed(e)]
    assert len(shapes) == len(dag_shapes())
    stats["hand_written_dag_shapes"] = len(shapes)
    stats["core_levels"] = [len(l0), len(l1) + len(t1), len(l2) + len(t2)]
    if thorough:
        p2 = L.prune(l2, L.key_struct)
        comp = l0 + L.prune(l1, L.key_op_shape)
        l3 = L.level_up(p2, comp, al, seen)
        core_terms += l3
        stats["core_levels"].append(len(l3))
        stats["core_level2_pool"] = len(p2)
        stats["core_companion"] = len(comp)

    # -- wide alphabet: level 1 complete; above it pruned pools and the light op alphabet
    al = L.alphabet("full" if thorough else "wide")
    lt = L.light(al)
    seen = set()
    w0 = L._dedup(al["leaves"], seen)
    w1 = L.level_up(w0, w0, al, seen)
    reals0 = [x for x in w0 if L.ty(x)[0] == "real"]
    w1 += L._dedup([("con", op, (x, y, z)) for op in al["con"] for x in reals0[:4] for y in reals0[:4] for z in reals0[:4]], seen)
    wt1 = L._dedup(_tuples(w0, [(w0[0], w0[1], w0[2]), (w0[3], w0[0], w0[3])]), seen)
    pool1 = L.prune(w1, L.key_op_inputs_shape if thorough else L.key_op_shape)
    comp1 = w0 + L.prune(w1, L.key_kind_shape)
    w2 = L.level_up(pool1, comp1, lt, seen)
    wide_terms = w0 + w1 + wt1 + w2
    stats["wide_levels"] = [len(w0), len(w1) + len(wt1), len(w2)]
    stats["wide_level1_pool"] = len(pool1)
    stats["wide_companion1"] = len(comp1)
    if thorough:
        pool2 = L.prune(w2, L.key_op_shape)
        comp2 = w0 + L.prune(w1, L.key_kind_shape)
        w3 = L.level_up(pool2, comp2, lt, seen, nary=False)
        wt3 = L._dedup(_tuples(L.prune(w2, L.key_op_shape)[:40], []), seen)
        wide_terms += w3 + wt3
        stats["wide_levels"].append(len(w3) + len(wt3))
        stats["wide_level2_pool"] = len(pool2)
        stats["wide_companion2"] = len(comp2)

    out, seen = [], set()
    for e in core_terms + wide_terms + shapes:
        if e not in seen:
            seen.add(e)
            out.append(e)
    stats["expressions"] = len(out)
    stats["expressions_with_shared_subterm"] = sum(1 for e in out if L.has_shared_op(e))
    _CORPUS[tier] = out
    _CORPUS_STATS[tier] = stats
    return out


def trace_variants(e):
    """Base variant + one deviation at a time.  A variant = (style, order, dead, kwargs order, allow_constants)."""
    if e[0] == "tup" or L.n_ops(e) > 4:
        return []
    ins = L.inputs_of(e)
    if len(ins) > 3:
        return []
    subs = L.postorder(e)
    has_arr = any(s[0] == "ten" for s in subs)
    has_param = any((s[0] == "u" and s[2] is not None and s[1] != "reshape") or (s[0] == "b" and isinstance(s[1], tuple) and s[1][1]) for s in subs)
    names = tuple(ins)
    base = ("inst", "left", 0, names, 1 if has_arr else 0)
    out = [base]
    if has_param:
        out.append(("pos",) + base[1:])
        out.append(("kw",) + base[1:])
    if any(s[0] in ("b", "con") for s in subs):
        out.append((base[0], "right") + base[2:])
    if ins:
        out.append(base[:2] + (1,) + base[3:])
    if len(ins) >= 2:
        out.append(base[:3] + (names[::-1],) + base[4:])
    if len(ins) <= 2:
        z = ("in", "z", (2,))
        out.append(base[:3] + (names + (z,),) + base[4:])
        if ins:
            out.append(base[:3] + ((z,) + names,) + base[4:])
    out.append(base[:4] + (1 - base[4],))
    return out


def _rename_cases(tier):
    """as_code hygiene: the same small programs with input names that collide with the printer's own locals."""
    a, b = L.V("a"), L.V("b")
    es = [("b", "sub", a, b), ("b", "truediv", b, a), ("b", "sub", ("u", "neg", None, a), b), ("con", "add", (a, b))]
    maps = [(("a", "v1"), ("b", "v0")), (("a", "v0"), ("b", "v1")), (("a", "v2"), ("b", "v3")), (("a", "ops"), ("b", "x"))]
    if tier == "thorough":
        maps += [(("a", "x"), ("b", "v0")), (("a", "set_backend"), ("b", "v9"))]
    return [("names", e, m) for e in es for m in maps]


def _trace_key(e):
    return (L.key_op_inputs_shape(e), L.has_shared_op(e), tuple(sorted(set(s[0] for s in L.postorder(e) if s[0] in ("num", "numi", "ten")))))


def cases(tier):
    """compile cases for every expression; trace cases: the base variant for every eligible expression, the
    deviations for the first expression per (root op, parameter, input names, output shape, shared-subterm bit,
    kinds of constants)."""
    es = expressions(tier)
    out = [("expr", e) for e in es]
    seen = set()
    n_base = n_dev = 0
    for e in es:
        vs = trace_variants(e)
        if not vs:
            continue
        out.append(("trace", e) + vs[0])
        n_base += 1
        k = _trace_key(e)
        if k in seen:
            continue
        seen.add(k)
        for v in vs[1:]:
            out.append(("trace", e) + v)
            n_dev += 1
    out += _rename_cases(tier)
    _CORPUS_STATS[tier].update(trace_base_cases=n_base, trace_deviation_cases=n_dev, compile_cases=len(es))
    return out


def describe(case):
    case = L.tuplify(case)
    if case[0] == "expr":
        return "compile " + L.text(case[1])
    if case[0] == "names":
        return "compile " + L.text(case[1]) + " renamed " + repr(dict(case[2]))
    return "trace %s style=%s order=%s dead=%s kwargs=%s allow_constants=%s" % (
        L.text(case[1]),
        case[2],
        case[3],
        case[4],
        [s[1] for s in case[5]],
        case[6],
    )


# ---------------------------------------------------------------------------
# building the funsor


def build(e, seed, rename=None):
    import operator

    import funsor.ops as ops
    from funsor.domains import Bint, Real, Reals
    from funsor.interpretations import lazy, normalize
    from funsor.tensor import Tensor
    from funsor.terms import Binary, Number, Tuple, Variable

    rename = dict(rename or ())
    pybin = {
        "add": operator.add,
        "sub": operator.sub,
        "mul": operator.mul,
        "truediv": operator.truediv,
        "pow": operator.pow,
        "matmul": operator.matmul,
        "floordiv": operator.floordiv,
        "mod": operator.mod,
    }
    memo = {}

    def go(s):
        if s in memo:
            return memo[s]
        t = s[0]
        with lazy:
            if t == "in":
                r = Variable(rename.get(s[1], s[1]), Reals[tuple(s[2])] if s[2] else Real)
            elif t == "ii":
                r = Variable(rename.get(s[1], s[1]), Bint[s[2]])
            elif t == "num":
                r = Number(float(s[1]))
            elif t == "numi":
                r = Number(int(s[1]), int(s[2]))
            elif t == "ten":
                r = Tensor(L.const_value(s, seed))
            elif t == "u":
                x = go(s[3])
                op, p = s[1], s[2]
                if op == "neg":
                    r = -x
                elif op in L.POINTWISE:
                    r = getattr(x, op)()
                elif op == "sum":
                    r = x.sum(p)
                elif op == "reshape":
                    r = x.reshape(tuple(p))
                else:
                    ix = L.decode_index(p)
                    r = x[ix if len(ix) > 1 else ix[0]]
            elif t == "b":
                x, y = go(s[2]), go(s[3])
                op = s[1]
                if isinstance(op, tuple):
                    r = Binary(ops.GetitemOp(op[1]), x, y)
                elif op in pybin:
                    # a Number operand next to a non-Number goes in as a python float (exercises __rsub__ & co)
                    if s[2][0] == "num" and s[3][0] != "num":
                        x = float(s[2][1])
                    elif s[3][0] == "num" and s[2][0] != "num":
                        y = float(s[3][1])
                    r = pybin[op](x, y)
                else:
                    r = Binary(getattr(ops, op), x, y)
            elif t == "tup":
                r = Tuple(tuple(go(c) for c in s[1]))
            elif t == "con":
                terms = [go(c) for c in s[2]]
        if t == "con":
            with normalize:
                r = terms[0]
                for x in terms[1:]:
                    r = pybin[s[1]](r, x)
        memo[s] = r
        return r

    return go(e)


def to_subs(leaf, v):
    from funsor.tensor import Tensor

    if leaf[0] == "ii":
        return Tensor(np.asarray(v), dtype=leaf[2])
    return Tensor(np.asarray(v))


def ground(r):
    """Concrete value of an evaluated funsor (ndarray / tuple of ndarrays) or None if it is still lazy."""
    from funsor.tensor import Tensor
    from funsor.terms import Number, Tuple

    if isinstance(r, Tensor):
        return None if r.inputs else np.asarray(r.data)
    if isinstance(r, Number):
        return np.asarray(r.data)
    if isinstance(r, Tuple):
        vals = tuple(ground(x) for x in r.args)
        return None if any(v is None for v in vals) else vals
    return None


# ---------------------------------------------------------------------------
# snippets

HEADER = """import pickle
import numpy as np
import funsor
import funsor.ops as ops
from funsor.compiler import compile_funsor
from funsor.domains import Bint, Real, Reals
from funsor.interpretations import lazy, normalize
from funsor.ops.tracer import trace_function
from funsor.tensor import Tensor
from funsor.terms import Binary, Number, Tuple, Variable
funsor.set_backend("numpy")
"""


def _lit(v):
    if isinstance(v, tuple):
        return "(" + ", ".join(_lit(x) for x in v) + ",)"
    return "np.array(%r)" % (np.asarray(v).tolist(),)


def _data_code(env):
    return "data = dict(%s)" % ", ".join("%s=%s" % (k, _lit(v)) for k, v in env.items())


def snippet_expr(e, seed, rename, env, ref, route):
    rn = dict(rename or ())
    lines = [HEADER] + L.build_code(e, seed, rn)
    lines.append("program = compile_funsor(expr)")
    lines.append(_data_code({rn.get(k, k): v for k, v in env.items()}))
    if route == "pickle":
        lines.append("program = pickle.loads(pickle.dumps(program))")
    if route == "as_code":
        lines += ["code = program.as_code()", "print(code)", "env = {}", "exec(code, None, env)", "program = env['program']"]
    if route == "substitution":
        lines.append("print('substitution:', expr(**{k: Tensor(v, dtype=expr.inputs[k].dtype) for k, v in data.items()}))")
    if route.startswith("reject"):
        lines.append("# every one of these calls must raise")
        lines.append("for k in list(data):")
        lines.append("    print('without', k, '->', program(**{n: v for n, v in data.items() if n != k}))")
        lines.append("print('with unknown ->', program(unknown_input_=np.array(1.0), **data))")
    else:
        lines.append("print('actual  :', program(**data))")
        lines.append("print('expected:', %s)" % (_lit(ref) if ref is not None else "None"))
    return "\n".join(lines)


def snippet_trace(src, consts, kw, env, ref, allow, route):
    lines = [HEADER]
    for k, v in consts.items():
        lines.append("%s = %s" % (k, _lit(v)))
    lines.append(src)
    lines.append(_data_code(env))
    lines.append("example = {k: data[k] for k in %r}  # the kwargs order used for tracing" % ([x[1] for x in kw],))
    lines.append("program = trace_function(fn, example, allow_constants=%s)" % bool(allow))
    if route == "pickle":
        lines.append("program = pickle.loads(pickle.dumps(program))")
    if route == "as_code":
        lines += ["code = program.as_code()", "print(code)", "env = {}", "exec(code, None, env)", "program = env['program']"]
    lines.append("print('actual  :', program(**data))")
    lines.append("print('fn      :', fn(**data))")
    lines.append("print('expected:', %s)" % (_lit(ref) if ref is not None else "None"))
    return "\n".join(lines)


# ---------------------------------------------------------------------------
# the shared program oracle


def _short(v):
    if isinstance(v, tuple):
        return "(" + ", ".join(_short(x) for x in v) + ")"
    try:
        return np.array2string(np.asarray(v), precision=10, separator=",").replace("\n", "")
    except Exception:
        return repr(v)[:200]


def _has_array_constant(program):
    def arr(c):
        if isinstance(c, np.ndarray):
            return True
        if isinstance(c, tuple):
            return any(arr(x) for x in c)
        return False

    return any(arr(c) for c in program.constants)


class Found(Exception):
    """A violation: (site, message, route, binding, reference)."""

    def __init__(self, site, message, route, env=None, ref=None, extra=None, raised=None):
        super().__init__(message)
        self.site, self.message, self.route, self.env, self.ref, self.extra = site, message, route, env, ref, extra or {}
        self.raised = raised  # name of the exception type when the route raised instead of returning a value


def keyword_orders(names):
    """Orders in which a complete binding is passed: every permutation for <= 3 inputs; for more inputs the
    given order (= program.inputs), its reverse and one rotation.  The first one is always the given order."""
    import itertools

    names = list(names)
    if len(names) <= 3:
        return [list(p) for p in itertools.permutations(names)]
    return [names, names[::-1], names[1:] + names[:1]]


def _call(route, prog, env, ref, prefix="", site=None):
    """Call ``prog`` with the binding ``env`` as an explicit dict in every keyword order; compare with ``ref``."""
    for order in keyword_orders(env):
        kw = {k: env[k] for k in order}
        extra = {"keyword_order": list(order), "keyword_order_is_declared_order": list(order) == list(env)}
        try:
            got = prog(**kw)
        except Exception as ex:
            f = Found(
                site or (prefix + route + ":raised"),
                "%s(%s) raised %s: %s where the reference value is %s"
                % (route, ", ".join(order), type(ex).__name__, str(ex)[:200], _short(ref)),
                route,
                kw,
                ref,
                extra,
                raised=type(ex).__name__,
            )
            f.origin = env
            raise f
        if not L.close(got, ref):
            f = Found(
                site or (prefix + route),
                "%s(%s) returned %s, reference %s" % (route, ", ".join(order), _short(got), _short(ref)),
                route,
                kw,
                ref,
                extra,
            )
            f.origin = env
            raise f


def check_program(program, points, all_envs, counters, prefix=""):
    """Run one OpProgram through direct call, pickle round trip, rejection of bad inputs and printed source.

    ``points`` = [(env, ref)] defined bindings; ``all_envs[0]`` is used for the rejection calls."""
    for env, ref in points:
        _call("program-call", program, env, ref, prefix)
    clone = pickle.loads(pickle.dumps(program))
    for env, ref in points:
        _call("pickle", clone, env, ref, prefix)
    # rejection
    env0 = all_envs[0]
    rej, rej_src = set(), set()
    for label, prog in (("program", program), ("pickle", clone)):
        for k in list(env0):
            bad = {n: v for n, v in env0.items() if n != k}
            try:
                got = prog(**bad)
            except Exception as ex:
                rej.add(type(ex).__name__)
            else:
                raise Found(
                    prefix + "reject:missing-input",
                    "%s called without input %r returned %s instead of raising" % (label, k, _short(got)),
                    "reject",
                    env0,
                    None,
                    {"dropped": k},
                )
        bad = dict(env0, unknown_input_=np.array(1.0))
        try:
            got = prog(**bad)
        except Exception as ex:
            rej.add(type(ex).__name__)
        else:
            raise Found(
                prefix + "reject:unknown-input",
                "%s called with an extra input 'unknown_input_' returned %s instead of raising" % (label, _short(got)),
                "reject",
                env0,
                None,
            )
    counters["rejections"] = counters.get("rejections", 0) + 2 * (len(env0) + 1)
    # printed source (last: array constants are a known finding and must not hide the routes above)
    has_arr = _has_array_constant(program)
    shadow = any(_SHADOW.match(n) for n in program.inputs)
    if has_arr:
        site = "as_code:array-constant"
    elif shadow:
        site = "as_code:input-name-capture"
    else:
        site = prefix + "as_code"
    try:
        code = program.as_code()
        ns = {}
        exec(code, None, ns)
        printed = ns["program"]
    except Exception as ex:
        raise Found(
            site,
            "the source printed by as_code() does not load: %s: %s" % (type(ex).__name__, str(ex)[:200]),
            "as_code",
            points[0][0] if points else env0,
            points[0][1] if points else None,
        )
    for env, ref in points:
        _call("as_code", printed, env, ref, prefix, site=site)
    # the printed function must reject bad inputs as well (python's own TypeError counts)
    for k in list(env0):
        try:
            got = printed(**{n: v for n, v in env0.items() if n != k})
        except Exception as ex:
            rej_src.add(type(ex).__name__)
        else:
            raise Found(site if site.startswith("as_code:") else prefix + "reject:missing-input",
                        "exec(as_code()) called without input %r returned %s" % (k, _short(got)), "reject", env0, None, {"dropped": k})
    try:
        got = printed(**dict(env0, unknown_input_=np.array(1.0)))
    except Exception as ex:
        rej_src.add(type(ex).__name__)
    else:
        raise Found(site if site.startswith("as_code:") else prefix + "reject:unknown-input",
                    "exec(as_code()) called with an unknown input returned %s" % _short(got), "reject", env0, None)
    return "%s/src:%s" % ("+".join(sorted(rej)), "+".join(sorted(rej_src)))


def reference_points(e, envs, seed, counters):
    pts = []
    for env in envs:
        try:
            ref = L.ref_eval(e, env, seed)
        except L.Undefined:
            counters["bindings_reference_undefined"] = counters.get("bindings_reference_undefined", 0) + 1
            continue
        if not L.well_conditioned(e, env, seed, ref):
            counters["bindings_ill_conditioned"] = counters.get("bindings_ill_conditioned", 0) + 1
            continue
        pts.append((env, ref))
    return pts


# ---------------------------------------------------------------------------
# compile cases


def check_expr(case, seed):
    e = case[1]
    rename = case[2] if case[0] == "names" else ()
    rn = dict(rename)
    key = repr(case)
    counters = {}
    feats = L.features_of(e)
    ins = L.inputs_of(e)
    envs0 = L.bindings(ins, seed, FILLS)
    pts0 = reference_points(e, envs0, seed, counters)
    if not pts0:
        return core.skip(key, "reference-undefined-at-every-binding")
    try:
        expr = build(e, seed, rename)
    except Exception as ex:
        return core.decline(key, "build:" + type(ex).__name__, counters=counters)
    try:
        from funsor.compiler import compile_funsor

        program = compile_funsor(expr)
    except Exception as ex:
        return core.decline(key, "compile:" + type(ex).__name__, counters=counters)
    ren = lambda env: {rn.get(k, k): v for k, v in env.items()}  # noqa
    envs = [ren(x) for x in envs0]
    pts = [(ren(x), r) for x, r in pts0]
    feats["has_array_constant"] = _has_array_constant(program)
    feats["input_names_shadow_locals"] = any(_SHADOW.match(n) for n in program.inputs)
    nops = len(program.operations)
    sub_status = []
    try:
        if set(program.inputs) != set(envs[0]) or len(program.inputs) != len(envs[0]):
            raise Found(
                "compile_funsor:inputs",
                "program inputs %s, expression inputs %s" % (program.inputs, sorted(envs[0])),
                "program-call",
                pts[0][0],
                pts[0][1],
            )
        # (ii) the statement's right-hand side: substitution of the arrays into the expression
        leaf = {rn.get(s[1], s[1]): s for s in ins}
        for env, ref in pts:
            sub_status.append(None)
            try:
                from funsor.interpreter import reinterpret

                sub = expr(**{k: to_subs(leaf[k], v) for k, v in env.items()}) if env else expr
                val = ground(sub)
                if val is None:  # constant-only sub-terms built lazily are untouched by substitution: evaluate them
                    sub = reinterpret(sub)
                val = ground(sub)
            except Exception as ex:
                sub_status[-1] = "raised:" + type(ex).__name__
                counters["substitution_raised:" + type(ex).__name__] = counters.get("substitution_raised:" + type(ex).__name__, 0) + 1
                continue
            if val is None:
                sub_status[-1] = "lazy"
                counters["substitution_lazy"] = counters.get("substitution_lazy", 0) + 1
                continue
            sub_status[-1] = "value"
            counters["substitution_compared"] = counters.get("substitution_compared", 0) + 1
            if not L.close(val, ref):
                raise Found(
                    "substitution",
                    "expr(**data) evaluates to %s, reference %s (the program was not consulted)" % (_short(val), _short(ref)),
                    "substitution",
                    env,
                    ref,
                )
        rej = check_program(program, pts, envs, counters)
    except Found as f:
        if f.raised and f.route != "reject":
            # "may decline": the program raised at a binding where substituting the arrays into the expression does
            # not produce a value either (e.g. a shape op applied to a Number, which is a python scalar)
            idx = [i for i, (env, _) in enumerate(pts) if env is getattr(f, "origin", f.env)]
            st = sub_status[idx[0]] if idx and idx[0] < len(sub_status) else None
            if st is not None and st != "value":
                return core.decline(key, "program-raises-and-substitution-declines:" + f.raised, counters=counters)
        feats.update(f.extra)
        feats["route"] = f.route
        feats = KNOWN_SITE_FEATURES.get(f.site, feats)
        inv = {v: k for k, v in rn.items()}
        env = {inv.get(k, k): v for k, v in (f.env or {}).items()}
        return core.violation(
            key,
            f.site,
            "%s\n  expression: %s%s\n  program: constants=%s inputs=%s operations=%s"
            % (f.message, L.text(e), (" renamed %s" % rn) if rn else "", _short_consts(program), program.inputs, program.operations),
            case,
            feats,
            snippet_expr(e, seed, rename, env, f.ref, f.route),
            transitions=nops,
        )
    counters["bindings_compared"] = len(pts)
    if feats["shared_subterm"]:
        counters["programs_with_shared_subterm"] = 1
    outcome = "ok:%s:c%d:i%d:o%d:%s" % (L.head(e).split(":")[0], len(program.constants), len(program.inputs), min(nops, 6), rej)
    return core.ok(key, nops >= 1, outcome, transitions=nops * len(pts) * 3, counters=counters)


def _short_consts(program):
    return "(" + ", ".join(_short(c) if isinstance(c, (np.ndarray, tuple)) else repr(c) for c in program.constants) + ")"


# ---------------------------------------------------------------------------
# trace cases


def fn_source(e, style, order, dead, kw):
    """Python source of ``def fn(<kwargs>)`` evaluating descriptor ``e`` with funsor.ops, and its constants."""
    consts = {}
    names = {}
    used_kw = [False]
    lines = ["def fn(%s):" % ", ".join(s[1] for s in kw)]

    def visit(s, seen, out):
        if s in seen:
            return
        cs = L.children(s)
        for c in cs if order == "left" else reversed(cs):
            visit(c, seen, out)
        seen.add(s)
        out.append(s)

    nodes = []
    visit(e, set(), nodes)
    n_emitted = 0

    def emit_dead():
        if kw:
            lines.append("    dead_ = ops.exp(%s)" % kw[0][1])

    if dead and not any(s[0] in ("u", "b", "con") for s in nodes):
        emit_dead()
    for s in nodes:
        t = s[0]
        if t in ("in", "ii"):
            names[s] = s[1]
            continue
        if t == "num":
            names[s] = repr(float(s[1]))
            continue
        if t == "numi":
            names[s] = repr(int(s[1]))
            continue
        if t == "ten":
            c = "C%d" % s[1]
            consts[c] = s
            names[s] = c
            continue
        v = "t%d" % len(names)
        names[s] = v
        if t == "u":
            x = names[s[3]]
            op, p = s[1], s[2]
            if op in L.POINTWISE:
                rhs = "ops.%s(%s)" % (op, x)
            else:
                if op == "sum":
                    cls, fnname, argname, par = "ops.SumOp", "ops.sum", "axis", repr(p)
                elif op == "reshape":  # funsor.ops does not export the reshape instance, only its class
                    cls, fnname, argname, par = "ops.ReshapeOp", "RESHAPE", "shape", repr(tuple(p))
                else:
                    cls, fnname, argname, par = "ops.GetsliceOp", "ops.getslice", "index", L._index_code(p)
                if p is None:
                    rhs = "%s(%s)" % (fnname, x)
                elif style == "inst" or op == "reshape":  # funsor.ops exports ReshapeOp but no reshape instance
                    rhs = "%s(%s)(%s)" % (cls, par, x)
                elif style == "pos":
                    rhs = "%s(%s, %s)" % (fnname, x, par)
                else:
                    used_kw[0] = True
                    rhs = "%s(%s, %s=%s)" % (fnname, x, argname, par)
        elif t == "b":
            x, y = names[s[2]], names[s[3]]
            op = s[1]
            if isinstance(op, tuple):
                if op[1] == 0:
                    rhs = "ops.getitem(%s, %s)" % (x, y)
                elif style == "inst":
                    rhs = "ops.GetitemOp(%d)(%s, %s)" % (op[1], x, y)
                elif style == "pos":
                    rhs = "ops.getitem(%s, %s, %d)" % (x, y, op[1])
                else:
                    used_kw[0] = True
                    rhs = "ops.getitem(%s, %s, offset=%d)" % (x, y, op[1])
            else:
                rhs = "ops.%s(%s, %s)" % (op, x, y)
        elif t == "con":
            rhs = names[s[2][0]]
            for c in s[2][1:]:
                rhs = "ops.%s(%s, %s)" % (s[1], rhs, names[c])
        else:
            raise ValueError(t)
        lines.append("    %s = %s" % (v, rhs))
        n_emitted += 1
        if dead and n_emitted == 1:
            emit_dead()
    lines.append("    return %s" % names[e])
    return "\n".join(lines), consts, used_kw[0]


def check_trace(case, seed):
    _, e, style, order, dead, kw, allow = case
    key = repr(case)
    counters = {}
    feats = L.features_of(e)
    used = L.inputs_of(e)
    envs = L.bindings(list(kw), seed, FILLS)
    feats.update(
        style=style,
        order=order,
        dead_op=bool(dead),
        allow_constants=bool(allow),
        kwargs=[s[1] for s in kw],
        unused_kwargs=len(kw) - len(used),
        root_is_input=e[0] in ("in", "ii"),
        root_is_last_kwarg=bool(kw) and e == kw[-1],
        root_is_constant=e[0] in ("num", "numi", "ten"),
        has_keyword_op_parameter=False,
    )
    pts = reference_points(e, envs, seed, counters)
    if not pts:
        return core.skip(key, "reference-undefined-at-every-binding")
    src, consts, used_kw = fn_source(e, style, order, dead, kw)
    feats["has_keyword_op_parameter"] = used_kw
    import funsor.ops as ops
    from funsor.ops.tracer import trace_function

    cvals = {k: L.const_value(s, seed) for k, s in consts.items()}
    ns = {"ops": ops, "np": np}
    ns.update(cvals)
    exec(src, ns)
    fn = ns["fn"]
    snip_src = src

    def snip(f):
        return snippet_trace(snip_src, cvals, kw, f.env or envs[0], f.ref, allow, f.route)

    # the function itself must agree with the reference (guard on the harness, never a violation of funsor)
    for env, ref in pts:
        try:
            direct = fn(**env)
        except Exception:
            return core.decline(key, "function-itself-raises", counters=counters)
        if not L.close(direct, ref):
            if not isinstance(direct, (np.ndarray, np.generic)):
                return core.decline(key, "function-returns-non-array", counters=counters)
            v = Found("ops-direct", "fn(**data) = %s, reference %s" % (_short(direct), _short(ref)), "direct", env, ref)
            return core.violation(key, v.site, v.message + "\n" + src, case, feats, snip(v))
    example = envs[0]
    try:
        program = trace_function(fn, dict(example), allow_constants=bool(allow))
    except Exception as ex:
        array_const_in_trace = bool(consts) or e[0] == "ten"
        if isinstance(ex, ValueError) and array_const_in_trace and not allow:
            return core.ok(key, True, "trace:array-constant-refused", transitions=1, counters=counters)
        return core.decline(key, "trace:" + type(ex).__name__, counters=counters)
    nops = len(program.operations)
    # the two places where a failure is attributed to a narrower site than "trace_function:<route>"
    prefix, fixed = "trace_function:", None
    if (feats["root_is_input"] and not feats["root_is_last_kwarg"]) or (feats["root_is_constant"] and kw):
        fixed = "trace_function:root-is-leaf"  # the program returns its last slot, which is not the function's result
    elif used_kw:
        fixed = "trace_function:op-kwargs"  # op parameters passed by keyword
    try:
        if list(program.inputs) != [s[1] for s in kw]:
            raise Found(prefix + "inputs", "program inputs %s, kwargs %s" % (program.inputs, [s[1] for s in kw]), "program-call", pts[0][0], pts[0][1])
        rej = check_program(program, pts, envs, counters, prefix)
    except Found as f:
        if fixed and not f.site.startswith("as_code:"):
            f.site = fixed
        feats.update(f.extra)
        feats["route"] = f.route
        feats["has_array_constant"] = _has_array_constant(program)
        feats = KNOWN_SITE_FEATURES.get(f.site, feats)
        return core.violation(
            key,
            f.site,
            "%s\n%s\n  traced program: constants=%s inputs=%s operations=%s"
            % (f.message, src, _short_consts(program), program.inputs, program.operations),
            case,
            feats,
            snip(f),
            transitions=nops,
        )
    counters["bindings_compared"] = len(pts)
    outcome = "ok:trace:c%d:i%d:o%d:%s" % (len(program.constants), len(program.inputs), min(nops, 6), rej)
    return core.ok(key, nops >= 1, outcome, transitions=nops * len(pts) * 3, counters=counters)


def check(case, seed):
    import warnings

    case = L.tuplify(case)
    with np.errstate(all="ignore"), warnings.catch_warnings():
        warnings.simplefilter("ignore")
        if case[0] in ("expr", "names"):
            return check_expr(case, seed)
        return check_trace(case, seed)
