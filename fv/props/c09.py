"""C09 -- plated sum-product equals brute-force unrolling.

Bounded-exhaustive enumeration of plated factor graphs (every multiset of factor shapes over a small pool of
discrete variables and plates), of every eliminate set, of every split of the eliminate set into two successive
calls, of plate scales and of the position of one free real parameter.  Each request is executed on the real
library (``partial_sum_product`` / ``sum_product`` / ``modified_partial_sum_product`` /
``dynamic_partial_sum_product`` / ``funsor.einsum.einsum``) and compared with ``fv.ref.plated`` (plain numpy).

Outcome demanded:  the unrolled table,  or ``ValueError`` where the request has no exact plated elimination
(intractable nesting) or where ``pedantic=True`` validation applies.  Anything else is a violation.
"""
import itertools
import json
import traceback
from collections import OrderedDict

import numpy as np

from .. import core, observe
from ..ref import lang, plated

ID = "C09"
LEVEL_RULE = (
    "graphs = multisets of factor shapes (variable subset x plate subset), simplest first (fewest factors, fewest "
    "names); per graph every eliminate set over the names that occur, per eliminate set every variant (one call "
    "pedantic/non-pedantic, sum_product, every ordered split into two calls, modified/dynamic with empty Markov "
    "steps, einsum, every plate-scale assignment, free real parameter on each factor position) and every semiring; "
    "a case is non-trivial when at least one value table returned by funsor was compared cell by cell with the "
    "unrolled reference and the eliminate set is non-empty; distinct = distinct (sizes, graph, eliminate, semiring, "
    "variant) text"
)
ASSUMPTIONS = [
    "numpy backend; factors are Tensors with generic positive real fill (function of VERIF_SEED)",
    "a name that is not eliminated is a batch index of the answer (the answer is compared for each of its values)",
    "an eliminated variable lives in the intersection of the eliminated plates of the factors mentioning it",
    "a request is 'not exactly eliminable' iff the top-down nested-plate recursion fv.ref.plated.unroll_nested gets "
    "stuck; there (and only there, and under pedantic validation) ValueError is the demanded outcome",
    "plate scales are exponents of the plate's product (pow for (add,mul), multiplication in log space); their "
    "reference exists only for nested graphs",
    "two-call splits are compared with the one-call reference only when split_valid (fv.ref.plated) holds; every "
    "individual call is always compared with the reference of its own request",
    "modified/dynamic variants with all plates declared are only asked requests in which every summed variable is "
    "entirely inside or outside each declared-but-kept plate (otherwise their contract is ambiguous)",
    "float comparison |a-b| <= 1e-9 + 1e-7|b|",
]

VARS = "abc"
PLATES = "ijk"
PROFILES = {
    "q": {"a": 2, "b": 2, "c": 2, "i": 2, "j": 3},
    "s": {"a": 2, "b": 2, "i": 2, "j": 1},  # a plate of size 1 (ties in any size-based choice of the algorithm)
    "r": {"a": 2, "b": 2, "i": 1, "j": 3},
    "t": {"a": 2, "b": 2, "c": 2, "i": 2, "j": 3, "k": 1},
    "u": {"a": 2, "b": 2, "c": 2, "i": 2, "j": 3, "k": 2},
}
SEM = plated.SEMIRING_NAMES
EINSUM_BACKEND = {
    "add-mul": "numpy",
    "logaddexp-add": "funsor.einsum.numpy_log",
    "max-add": "funsor.einsum.numpy_map",
}
SCALES = (2, 0.5)
API_NAME = {
    "psp": "partial_sum_product",
    "sp": "sum_product",
    "mod": "modified_partial_sum_product",
    "dyn": "dynamic_partial_sum_product",
    "einsum": "einsum",
}


# ---------------------------------------------------------------------------
# enumeration


def factor_types(nvars, nplates):
    vs = VARS[:nvars]
    ps = PLATES[:nplates]
    out = []
    for r in range(nvars + nplates + 1):
        for nv in range(min(r, nvars) + 1):
            npl = r - nv
            if npl > nplates:
                continue
            for v in itertools.combinations(vs, nv):
                for p in itertools.combinations(ps, npl):
                    out.append("".join(v) + "".join(p))
    return out


def _canon_vars(graph):
    """Representative of the graph under permutation of the (equal-sized, tie-break-free) variable names."""
    best = None
    used = sorted({c for s in graph for c in s if c in VARS})
    for perm in itertools.permutations(VARS[: len(used)]):
        m = dict(zip(used, perm))
        g = tuple(sorted("".join(sorted((m.get(c, c) for c in s), key=_name_key)) for s in graph))
        if best is None or g < best:
            best = g
    return best


def _name_key(c):
    return (c in PLATES, c)


def graphs(nvars, nplates, max_factors, canonical=False):
    types = factor_types(nvars, nplates)
    out = []
    for n in range(max_factors + 1):
        level = []
        for g in itertools.combinations_with_replacement(types, n):
            if canonical and _canon_vars(g) != tuple(sorted(g)):
                continue
            level.append(g)
        level.sort(key=lambda g: (sum(len(s) for s in g), g))
        out.extend(level)
    return out


def subsets(names):
    for r in range(len(names) + 1):
        for c in itertools.combinations(names, r):
            yield "".join(c)


def eliminate_sets(names, which):
    if which == "all":
        return list(subsets(names))
    out = [names]
    for c in names:
        out.append(names.replace(c, ""))
    return out


def names_of(graph):
    return "".join(sorted({c for s in graph for c in s}, key=_name_key))


def layout(k, s):
    """Input order of factor k: odd positions are laid out reversed so that shared names sit on different axes."""
    return s if k % 2 == 0 else s[::-1]


def variants(graph, E, sem, level):
    """All variants of one (graph, eliminate, semiring); ``level`` selects the breadth (see LEVELS)."""
    fn = [tuple(s) for s in graph]
    names = names_of(graph)
    allp = [c for c in names if c in PLATES]
    ev = [c for c in E if c in VARS]
    ep = [c for c in E if c in PLATES]
    full = E == names

    def on(key):
        return level.get(key) == "all" or (level.get(key) == "full" and full)

    one = level["one"]
    out = []
    if "psp0" in one:
        out.append(["psp", 0])
    if "psp1" in one:
        out.append(["psp", 1])
    if "sp" in one:
        out.append(["sp"])
    if on("splits"):
        for E1 in subsets(E):
            out.append(["split", E1, "psp"])
    kept_declared = [p for p in allp if p not in ep]
    consistent = plated.batch_consistent(fn, ev, kept_declared)
    for api in ("mod", "dyn"):
        if api in one:
            out.append([api, "elim"])
            if consistent and kept_declared:
                out.append([api, "all"])
    if on("md_splits") and len(E) >= 1:
        for E1 in subsets(E):
            if E1 == "" or E1 == E:
                continue
            out.append(["split", E1, "mod"])
            out.append(["split", E1, "dyn"])
    if graph and "einsum" in one:
        out.append(["einsum"])
    if ep and on("scales"):
        for assign in itertools.product((None,) + SCALES, repeat=len(ep)):
            sc = [[p, s] for p, s in zip(ep, assign) if s is not None]
            if not sc:
                continue
            out.append(["scale", sc, "psp", ""])
            if on("scale_splits") and len(E) >= 2:
                for E1 in subsets(E):
                    if E1 != "" and E1 != E:
                        out.append(["scale", sc, "psp", E1])
    if sem in level.get("param_sems", ()):
        seen = set()
        for k, s in enumerate(graph):
            if s in seen:
                continue  # equal shapes differ only by fill: one position per shape
            seen.add(s)
            out.append(["param", k, "sp"])
            if level.get("param_psp"):
                out.append(["param", k, "psp"])
    return out


ALL_ONE = ("psp0", "psp1", "sp", "mod", "dyn", "einsum")
LEVELS = {
    # E: which eliminate sets ("all" subsets of the names present | "full" set and the full set minus one name)
    # one: one-call variants; splits / md_splits / scales / scale_splits: "all" eliminate sets | "full" set only
    # quick: everything on <=3 factors / 2 variables / 2 plates
    "q3": dict(E="all", one=ALL_ONE, splits="all", scales="all", param_sems=(0, 1)),
    # thorough, small pool: also two-call modified/dynamic, two-call scaled, parameter through partial_sum_product
    "t3": dict(E="all", one=ALL_ONE, splits="all", md_splits="all", scales="all", scale_splits="all",
               param_sems=(0, 1, 2), param_psp=True),
    # thorough, 3 variables / 3 plates: every eliminate set in one call; splits and scales of the full set
    "big": dict(E="all", one=("psp0", "psp1", "mod", "einsum"), splits="full", scales="full"),
    "big-psp": dict(E="full-1", one=("psp0",)),
    "unit": dict(E="full-1", one=ALL_ONE, splits="full", scales="full"),
    "unit-psp": dict(E="full-1", one=("psp0", "sp")),
    "edge": dict(E="full-1", one=("psp0", "sp"), scales="full"),
    "four-q": dict(E="full-1", one=("psp0", "mod", "dyn")),
    "four": dict(E="full-1", one=("psp0", "dyn")),
}


def plan(tier):
    """[(size profile, graph list, semiring indices, level name)]"""
    g22 = graphs(2, 2, 3)
    g22r = _reversed(g22)
    # size-1 plates and both listing orders of the factors (the order decides ties between plate sets, and the
    # position decides the axis layout): full eliminate set and all-but-one
    unit_plate = [
        ("s", g22, (0, 1), "unit"),
        ("s", g22r, (0, 1), "unit"),
        ("r", g22, (0,), "unit-psp"),
        ("r", g22r, (0,), "unit-psp"),
        ("q", g22r, (0, 1, 2), "unit-psp"),
    ]
    # 4 factors over 3 variables / 2 plates, linked through shared variables (smallest pool holding two factors of
    # the joint plate set coupled only through a shallower variable, each also reading a variable of a different
    # single plate): the three one-call eliminators must all give the table (or all be stuck)
    g4q = [g for g in graphs(3, 2, 4, canonical=True) if len(g) == 4 and _connected(g)]
    unit_plate.append(("q", g4q, (0,), "four-q"))
    if tier == "quick":
        return [("q", g22, (0, 1, 2), "q3")] + unit_plate
    # 3 variables / 3 plates: variable relabelling removed (all variables have size 2 and no tie-break of the
    # algorithm reads a variable name); plates are never relabelled (sizes differ or are tie-break positions)
    g33 = [g for g in graphs(3, 3, 3, canonical=True) if _beyond(g, 2, 2)]
    g4 = [g for g in graphs(3, 3, 4, canonical=True) if len(g) == 4 and _connected(g)]
    return unit_plate + [
        ("q", g22, (0, 1, 2), "t3"),
        ("u", g33, (0,), "big"),
        ("u", g33, (1, 2), "big-psp"),
        ("t", g33, (0,), "edge"),  # third plate of size 1
        ("u", g4, (0,), "four"),
    ]


def _reversed(gs):
    """The same graphs with their factors listed in the opposite order (where that is a different list)."""
    return [tuple(reversed(g)) for g in gs if tuple(reversed(g)) != tuple(g)]


def _beyond(g, nvars, nplates):
    """Uses a name outside the smaller pool (so the graph is not already in the quick enumeration)."""
    return any(c in VARS[nvars:] or c in PLATES[nplates:] for s in g for c in s)


def _connected(g):
    """All factors linked through shared variables (a 4-factor graph that is not is a product of smaller ones)."""
    comps = plated._components([(tuple(s), None) for s in g], set(VARS))
    return len(comps) == 1


def bounds(tier):
    out = {"plan": []}
    for prof, gs, sems, lvl in plan(tier):
        out["plan"].append(
            {
                "sizes": PROFILES[prof],
                "graphs": len(gs),
                "max_factors": max((len(g) for g in gs), default=0),
                "semirings": [SEM[s] for s in sems],
                "variants": LEVELS[lvl],
            }
        )
    out["restrictions"] = [
        "pools beyond 2 variables / 2 plates: one representative per relabelling of the (equal-sized) variables",
        "4-factor graphs: only those whose factors are linked through shared variables; eliminate sets = all names "
        "and all names but one",
        "factor k is laid out with its inputs reversed when k is odd",
        "factors are listed smallest shape first; the opposite listing order only in the plan entries over reversed "
        "graph lists (levels unit / unit-psp)",
    ]
    out["scales"] = list(SCALES)
    out["real_parameter_points"] = 2
    out["eliminate_sets"] = "E=all: all subsets of the names occurring in the graph; E=full-1: all names, all but one"
    out["splits"] = "all ordered pairs (E1, E - E1), including the empty halves"
    return out


def iter_cases(tier):
    for prof, gs, sems, lvl in plan(tier):
        level = LEVELS[lvl]
        for g in gs:
            names = names_of(g)
            for E in eliminate_sets(names, level["E"]):
                for sem in sems:
                    for v in variants(g, E, sem, level):
                        yield [prof, list(g), E, sem, v]


def cases(tier):
    return list(iter_cases(tier))


BATCH = 300000


def explore(tier, seed, report):
    """Runs check() over iter_cases(tier) on the worker pool, in batches (bounds the memory of the case list)."""
    import sys

    mod = sys.modules[__name__]
    batch = []
    for case in iter_cases(tier):
        batch.append(case)
        if len(batch) >= BATCH:
            core.run_cases(mod, tier, seed, report, cases=batch)
            batch = []
            if not report.exhaustive:
                return
    if batch:
        core.run_cases(mod, tier, seed, report, cases=batch)


def describe(case):
    prof, g, E, sem, v = case
    return "sizes=%s factors=[%s] eliminate=%r %s %s" % (prof, ",".join(g), E, SEM[sem], json.dumps(v))


# ---------------------------------------------------------------------------
# execution helpers

_CACHE = {"key": None}


def _ops(sem):
    from funsor import ops

    return {
        "add-mul": (ops.add, ops.mul),
        "logaddexp-add": (ops.logaddexp, ops.add),
        "max-add": (ops.max, ops.add),
    }[sem]


def _setup(prof, graph, seed):
    """Arrays and Tensors of one graph (cached per worker while the graph stays the same)."""
    key = (prof, tuple(graph), seed)
    if _CACHE["key"] != key:
        from funsor.domains import Bint
        from funsor.tensor import Tensor

        sizes = PROFILES[prof]
        lay = [layout(k, s) for k, s in enumerate(graph)]
        arrs = [lang.generic_fill(k + 1, tuple(sizes[c] for c in s), seed) for k, s in enumerate(lay)]
        tensors = [Tensor(a, OrderedDict((c, Bint[sizes[c]]) for c in s)) for s, a in zip(lay, arrs)]
        _CACHE.clear()
        _CACHE.update(key=key, lay=lay, arrs=arrs, tensors=tensors, oracle={})
    return _CACHE


class Bad(Exception):
    """A violation found while observing a result."""

    def __init__(self, what, message):
        Exception.__init__(self, message)
        self.what = what


def _call(fn):
    """-> ("value", result) | ("ValueError", text) | ("NotImplementedError", text) | ("raised", text)"""
    try:
        return "value", fn()
    except ValueError as e:
        return "ValueError", str(e)[:120]
    except NotImplementedError as e:
        return "NotImplementedError", str(e)[:120]
    except Exception as e:  # noqa
        tb = traceback.extract_tb(e.__traceback__)
        where = "%s:%d" % (tb[-1].filename.split("/funsor/")[-1], tb[-1].lineno) if tb else "?"
        return "raised", "%s at %s: %s" % (type(e).__name__, where, str(e)[:120])


def _tables(funsors, tval):
    """Named tables of a list of funsor results (binding the real parameter t first).  Raises observe.Decline."""
    from funsor.tensor import Tensor
    from funsor.terms import Funsor, Number

    out = []
    for r in funsors:
        if not isinstance(r, Funsor):
            raise Bad("not-a-funsor", "result element is %r" % type(r).__name__)
        if "t" in r.inputs:
            if tval is None:
                raise Bad("unexpected-input", "result mentions an input 't' that no factor has")
            try:
                r = r(t=Tensor(np.array(tval, dtype=np.float64)))
            except Exception as e:  # noqa
                raise observe.Decline("subs-raised:" + type(e).__name__)
        if isinstance(r, Number):
            out.append(((), np.asarray(float(r.data))))
        elif isinstance(r, Tensor):
            if r.output.shape != () or any(d.shape != () or d.dtype == "real" for d in r.inputs.values()):
                raise Bad("result-type", "result has inputs %s output %s" % (dict(r.inputs), r.output))
            out.append((tuple(r.inputs), np.asarray(r.data, dtype=np.float64)))
        else:
            raise observe.Decline("lazy:" + type(r).__name__.split("[")[0])
    return out


def _compare(tables, sem, sizes, kept, expected, eliminated):
    """Product of the returned tables == expected (over ``kept``)?  Raises Bad."""
    for ns, _ in tables:
        for n in ns:
            if n in eliminated:
                raise Bad("eliminated-name-kept", "a returned factor still has the eliminated input %r" % n)
            if n not in kept:
                raise Bad("unexpected-input", "a returned factor has the unknown input %r" % n)
    unit = plated.SEMIRINGS[sem][4]
    names, got = plated.combine(list(tables) + [(tuple(kept), np.full(np.shape(expected), unit))], sem, sizes)
    assert names == tuple(kept)
    if not observe.values_equal(got, expected, "real"):
        raise Bad(
            "value",
            "table over %s: expected %s, funsor returned %s"
            % (list(kept), np.asarray(expected).tolist(), np.asarray(got).tolist()),
        )


def _reference(fs, sizes, ev, ep, sem, scales=None, original=False):
    """-> (kept, table or None, tractable).  table is None only for a scaled request without nesting.

    ``original``: fs are the tables of the graph held in the worker cache (memoised per request)."""
    if original:
        memo = _CACHE["oracle"]
        key = (tuple(sorted(ev)), tuple(sorted(ep)), sem, tuple(map(tuple, scales)) if scales else None)
        if key not in memo:
            memo[key] = _reference(fs, sizes, ev, ep, sem, scales)
        return memo[key]
    if scales:
        try:
            kept, tab = plated.unroll_nested(fs, sizes, ev, ep, sem, scales)
            return kept, tab, True
        except plated.Intractable:
            return plated.kept_names([n for n, _ in fs], ev, ep), None, False
    tract = plated.tractable([n for n, _ in fs], ev, ep)
    try:
        kept, tab = plated.unroll(fs, sizes, ev, ep, sem)
    except plated.TooBig:
        # the flat joint table of one component is too large: use the top-down recursion where it exists
        if not tract:
            return plated.kept_names([n for n, _ in fs], ev, ep), None, False
        kept, tab = plated.unroll_nested(fs, sizes, ev, ep, sem)
    return kept, tab, tract


class Run:
    """One case being executed: accumulates verdict pieces."""

    def __init__(self, case, seed):
        self.case = case
        self.seed = seed
        self.prof, self.graph, self.E, semi, self.variant = case
        self.sem = SEM[semi]
        self.sizes = PROFILES[self.prof]
        self.key = json.dumps(case)
        self.compared = 0
        self.calls = 0
        self.labels = []

    # -- one API call on ``factors`` (funsor objects) whose reference inputs are ``fs`` (named tables) ----------
    def step(self, api, funsor_factors, fs, E, declared, tval, pedantic=False, scales=None, conv="elim", original=False):
        """Execute one call and judge it against the reference of its own request.

        Returns the list of returned funsors (None if the call legitimately raised ValueError)."""
        from funsor import sum_product as SP

        sum_op, prod_op = _ops(self.sem)
        fn = [n for n, _ in fs]
        ev = frozenset(c for c in E if c not in declared)
        ep = frozenset(c for c in E if c in declared)
        elim = frozenset(E)
        kw = {}
        if scales:
            kw["plate_to_scale"] = dict(scales)
        ffs = list(funsor_factors)
        if api == "psp":
            f = lambda: SP.partial_sum_product(sum_op, prod_op, ffs, elim, frozenset(declared), pedantic, **kw)  # noqa
        elif api == "sp":
            f = lambda: [SP.sum_product(sum_op, prod_op, ffs, elim, frozenset(declared), pedantic, **kw)]  # noqa
        elif api == "mod":
            p2s = {p: {} for p in (declared if conv == "all" else sorted(ep))}
            f = lambda: SP.modified_partial_sum_product(sum_op, prod_op, ffs, elim, p2s)  # noqa
        elif api == "dyn":
            p2s = {p: frozenset() for p in (declared if conv == "all" else sorted(ep))}
            f = lambda: SP.dynamic_partial_sum_product(sum_op, prod_op, ffs, elim, p2s)  # noqa
        else:
            raise AssertionError(api)
        self.calls += 1
        kind, res = _call(f)
        self.last = (api, E, kind)
        if kind == "raised":
            raise Bad("exception", "%s raised %s (only ValueError may be raised)" % (API_NAME[api], res))
        if kind == "NotImplementedError":
            raise observe.Decline("NotImplementedError")
        invalid = pedantic and plated.pedantic_invalid(fn, elim, frozenset(declared))
        if invalid:
            if kind != "ValueError":
                raise Bad("pedantic-missed", "pedantic=True accepted a preserved variable inside an eliminated plate")
            self.labels.append("ValueError:pedantic")
            return None
        kept, expected, tract = _reference(fs, self.sizes, ev, ep, self.sem, scales, original)
        if kind == "ValueError":
            if tract:
                raise Bad(
                    "spurious-ValueError",
                    "%s raised ValueError(%r) for a request that has an exact nested elimination; expected table "
                    "over %s: %s" % (API_NAME[api], res, list(kept), None if expected is None else expected.tolist()),
                )
            self.labels.append("ValueError:intractable")
            return None
        if not isinstance(res, (list, tuple)):
            raise Bad("result-type", "%s returned %s" % (API_NAME[api], type(res).__name__))
        tables = _tables(res, tval)
        if expected is None:
            raise observe.Decline("value-without-reference(not-nested and scaled-or-too-large)")
        _compare(tables, self.sem, self.sizes, kept, expected, elim)
        self.compared += 1
        self.labels.append("table" if tract else "table:though-not-nested")
        return res


def _with_param(fs, k, tval, sem):
    prod2 = plated.SEMIRINGS[sem][1]
    return [(n, prod2(a, tval) if j == k else a) for j, (n, a) in enumerate(fs)]


def check(case, seed):
    prof, graph, E, semi, variant = case
    case = [prof, list(graph), E, semi, _listify(variant)]
    run = Run(case, seed)
    try:
        _execute(run)
    except Bad as b:
        api = run.last[0] if getattr(run, "last", None) else variant[0]
        return _violation(run, b, api)
    except observe.Decline as d:
        return core.decline(run.key, str(d), transitions=run.calls)
    label = "+".join(run.labels) if run.labels else "nothing"
    return core.ok(
        run.key,
        nontrivial=run.compared > 0 and len(E) > 0,
        outcome="%s:%s" % (variant[0], label),
        transitions=run.calls,
        counters={"tables_compared": run.compared, "funsor_calls": run.calls},
    )


def _listify(x):
    if isinstance(x, (list, tuple)):
        return [_listify(y) for y in x]
    return x


def _execute(run):
    prof, graph, E, variant = run.prof, run.graph, run.E, run.variant
    st = _setup(prof, tuple(graph), run.seed)
    sizes = run.sizes
    lay, arrs, tensors = st["lay"], st["arrs"], st["tensors"]
    fs = [(tuple(s), a) for s, a in zip(lay, arrs)]
    declared = [c for c in names_of(graph) if c in PLATES]
    kind = variant[0]

    if kind == "psp":
        run.step("psp", tensors, fs, E, declared, None, pedantic=bool(variant[1]), original=True)
    elif kind == "sp":
        run.step("sp", tensors, fs, E, declared, None, original=True)
    elif kind in ("mod", "dyn"):
        run.step(kind, tensors, fs, E, declared, None, conv=variant[1], original=True)
    elif kind == "einsum":
        _einsum(run, tensors, fs, declared)
    elif kind == "param":
        _param(run, tensors, fs, declared, variant[1], variant[2])
    elif kind == "split":
        _split(run, tensors, fs, declared, variant[1], variant[2], None)
    elif kind == "scale":
        scales = [(p, s) for p, s in variant[1]]
        if variant[3] == "":
            run.step(variant[2], tensors, fs, E, declared, None, scales=scales, original=True)
        else:
            _split(run, tensors, fs, declared, variant[3], variant[2], scales)
    else:
        raise AssertionError(kind)


def _split(run, tensors, fs, declared, E1, api, scales):
    E = run.E
    E2 = "".join(c for c in E if c not in E1)
    fn = [n for n, _ in fs]
    conv = "all" if api in ("mod", "dyn") else "elim"
    if conv == "all":
        # modified/dynamic take every plate as declared in both calls: ask only unambiguous requests
        ev1 = [c for c in E1 if c in VARS]
        if not plated.batch_consistent(fn, ev1, [p for p in declared if p not in E1]):
            raise observe.Decline("skipped:first-call-ambiguous-for-declared-plates")
    # first call: plates = all plates of the graph; second call: only the plates it eliminates (the API intersects
    # ``plates`` with ``eliminate`` itself, so both conventions must agree)
    r1 = run.step(api, tensors, fs, E1, declared, None, scales=scales, conv=conv, original=True)
    if r1 is None:
        return
    fs1 = _tables(r1, None)
    d2 = declared if conv == "all" else [p for p in declared if p in E2]
    if conv == "all":
        fn1 = [n for n, _ in fs1]
        ev2 = [c for c in E2 if c in VARS]
        if not plated.batch_consistent(fn1, ev2, [p for p in declared if p not in E2 and any(p in n for n in fn1)]):
            raise observe.Decline("skipped:second-call-ambiguous-for-declared-plates")
    r2 = run.step(api, r1, fs1, E2, d2, None, scales=scales, conv=conv)
    if r2 is None:
        return
    if not plated.split_valid(fn, E1, E2, declared):
        run.labels.append("split-not-composable")
        return
    ev = frozenset(c for c in E if c in VARS)
    ep = frozenset(c for c in E if c in PLATES)
    kept, expected, tract = _reference(fs, run.sizes, ev, ep, run.sem, scales, True)
    if expected is None:
        run.labels.append("composed:no-reference")
        return
    run.last = (api, E, "composed")
    _compare(_tables(r2, None), run.sem, run.sizes, kept, expected, frozenset(E))
    run.compared += 1
    run.labels.append("composed-table")


def _param(run, tensors, fs, declared, k, api):
    from funsor.domains import Real
    from funsor.terms import Variable

    _sum_op, prod_op = _ops(run.sem)
    ff = list(tensors)
    ff[k] = prod_op(ff[k], Variable("t", Real))
    E = run.E
    points = [float(p) for p in lang.real_points("t", (), run.seed, 2)]
    # the call is made once (lazy in t); it is judged at each point
    saved = None
    for j, tv in enumerate(points):
        fsp = _with_param(fs, k, tv, run.sem)
        if j == 0:
            saved = run.step(api, ff, fsp, E, declared, tv)
            if saved is None:
                return
        else:
            ev = frozenset(c for c in E if c in VARS)
            ep = frozenset(c for c in E if c in PLATES)
            kept, expected, _ = _reference(fsp, run.sizes, ev, ep, run.sem)
            if expected is None:
                raise observe.Decline("value-without-reference(not-nested and scaled-or-too-large)")
            _compare(_tables(saved, tv), run.sem, run.sizes, kept, expected, frozenset(E))
            run.compared += 1


def _equation(lay, E):
    names = "".join(sorted({c for s in lay for c in s}, key=_name_key))
    return ",".join(lay) + "->" + "".join(c for c in names if c not in E)


def _einsum(run, tensors, fs, declared):
    from funsor.einsum import einsum

    E = run.E
    lay = ["".join(n) for n, _ in fs]
    eq = _equation(lay, E)
    run.calls += 1
    kind, res = _call(lambda: einsum(eq, *tensors, plates="".join(declared), backend=EINSUM_BACKEND[run.sem]))
    run.last = ("einsum", E, kind)
    if kind == "raised":
        raise Bad("exception", "einsum(%r) raised %s (only ValueError may be raised)" % (eq, res))
    out_plates = [p for p in declared if p not in E]
    documented_todo = any(p not in s for p in out_plates for s in lay)
    if kind == "NotImplementedError":
        if not documented_todo:
            raise Bad("exception", "einsum(%r) raised NotImplementedError(%s) for a supported request" % (eq, res))
        raise observe.Decline("NotImplementedError:output-plate-missing-from-an-operand")
    ev = frozenset(c for c in E if c in VARS)
    ep = frozenset(c for c in E if c in PLATES)
    kept, expected, tract = _reference(fs, run.sizes, ev, ep, run.sem, None, True)
    if kind == "ValueError":
        if tract:
            raise Bad("spurious-ValueError", "einsum(%r) raised ValueError(%r) for a nested request" % (eq, res))
        run.labels.append("ValueError:intractable")
        return
    if expected is None:
        raise observe.Decline("value-without-reference(not-nested and scaled-or-too-large)")
    _compare(_tables([res], None), run.sem, run.sizes, kept, expected, frozenset(E))
    run.compared += 1
    run.labels.append("table")


# ---------------------------------------------------------------------------
# violations


def _violation(run, bad, api):
    prof, graph, E, variant = run.prof, run.graph, run.E, run.variant
    feats = {
        "what": bad.what,
        "api": api,
        "variant": variant[0],
        "semiring": run.sem,
        "n_factors": len(graph),
        "eliminates_plate": any(c in PLATES for c in E),
        "scaled": variant[0] == "scale",
        "real_parameter": variant[0] == "param",
    }
    msg = "%s: %s\n  case: %s" % (bad.what, str(bad), describe(run.case))
    return core.violation(
        run.key, API_NAME.get(api, api), msg, run.case, feats, snippet(run.case, run.seed), transitions=run.calls
    )


SNIPPET = '''\
# stand-alone reproduction (public funsor API + numpy only); run with /venv/bin/python
from collections import OrderedDict
from functools import reduce
import numpy as np
import funsor
from funsor import ops
from funsor.domains import Bint, Real
from funsor.tensor import Tensor
from funsor.terms import Variable
from funsor.sum_product import (partial_sum_product, sum_product, modified_partial_sum_product,
                                dynamic_partial_sum_product)
from funsor.einsum import einsum
funsor.set_backend("numpy")
def fill(leaf_id, shape, seed=%(seed)d):
    n = int(np.prod(shape)) if shape else 1
    c = np.arange(n, dtype=np.float64)
    return (0.5 + 1.5 * np.mod(0.6180339887498949 * (131.0 * leaf_id + c + 1.0) + seed * 0.7548776662466927, 1.0)).reshape(shape)
sizes = %(sizes)r
layouts = %(lay)r
factors = [Tensor(fill(k + 1, tuple(sizes[c] for c in s)), OrderedDict((c, Bint[sizes[c]]) for c in s))
           for k, s in enumerate(layouts)]
sum_op, prod_op = %(ops)s
plates = frozenset(%(declared)r)
%(body)s
# reference (brute-force unrolling: every variable replicated per index of the eliminated plates shared by all
# factors mentioning it; product of all factor instances; sum over the copies):
%(ref)s
'''


def snippet(case, seed):
    prof, graph, E, semi, variant = case
    sem = SEM[semi]
    sizes = PROFILES[prof]
    lay = [layout(k, s) for k, s in enumerate(graph)]
    declared = "".join(c for c in names_of(graph) if c in PLATES)
    opsrc = {"add-mul": "ops.add, ops.mul", "logaddexp-add": "ops.logaddexp, ops.add", "max-add": "ops.max, ops.add"}[sem]
    kind = variant[0]
    fn = {"psp": "partial_sum_product", "sp": "sum_product", "mod": "modified_partial_sum_product",
          "dyn": "dynamic_partial_sum_product"}
    body = []
    scales = None
    tv = None
    fs = [(tuple(s), lang.generic_fill(k + 1, tuple(sizes[c] for c in s), seed)) for k, s in enumerate(lay)]
    if kind == "psp":
        body.append("r = partial_sum_product(sum_op, prod_op, factors, frozenset(%r), plates, pedantic=%r)" % (E, bool(variant[1])))
        body.append("print(r)")
    elif kind == "sp":
        body.append("r = sum_product(sum_op, prod_op, factors, frozenset(%r), plates)" % (E,))
        body.append("print(r)")
    elif kind in ("mod", "dyn"):
        ps = declared if variant[1] == "all" else "".join(c for c in E if c in PLATES)
        empty = "{}" if kind == "mod" else "frozenset()"
        body.append("r = %s(sum_op, prod_op, factors, frozenset(%r), {p: %s for p in %r})" % (fn[kind], E, empty, ps))
        body.append("print(r)")
    elif kind == "einsum":
        body.append("r = einsum(%r, *factors, plates=%r, backend=%r)" % (_equation(lay, E), declared, EINSUM_BACKEND[sem]))
        body.append("print(r)")
    elif kind == "param":
        k = variant[1]
        tv = float(lang.real_points("t", (), seed, 2)[0])
        body.append("factors[%d] = prod_op(factors[%d], Variable('t', Real))" % (k, k))
        body.append("r = %s(sum_op, prod_op, factors, frozenset(%r), plates)" % (fn[variant[2]], E))
        body.append("r = r if isinstance(r, list) else [r]")
        body.append("print([x(t=Tensor(np.array(%r))) for x in r])" % tv)
        fs = _with_param(fs, k, tv, sem)
    else:  # split / scaled
        if kind == "scale":
            scales = [(p, s) for p, s in variant[1]]
            api, E1 = variant[2], variant[3]
        else:
            E1, api = variant[1], variant[2]
        E2 = "".join(c for c in E if c not in E1)
        kw = ", plate_to_scale=%r" % dict(scales) if scales else ""
        if api == "psp":
            if kind == "scale" and E1 == "":
                body.append("r = partial_sum_product(sum_op, prod_op, factors, frozenset(%r), plates%s)" % (E, kw))
            else:
                body.append("r1 = partial_sum_product(sum_op, prod_op, factors, frozenset(%r), plates%s)" % (E1, kw))
                body.append("print('after the first call:', r1)")
                body.append("r = partial_sum_product(sum_op, prod_op, r1, frozenset(%r), plates & frozenset(%r)%s)" % (E2, E2, kw))
        else:
            empty = "{}" if api == "mod" else "frozenset()"
            body.append("p2s = {p: %s for p in %r}" % (empty, declared))
            body.append("r1 = %s(sum_op, prod_op, factors, frozenset(%r), p2s)" % (fn[api], E1))
            body.append("print('after the first call:', r1)")
            body.append("r = %s(sum_op, prod_op, r1, frozenset(%r), p2s)" % (fn[api], E2))
        body.append("print(r)")
    ev = frozenset(c for c in E if c in VARS)
    ep = frozenset(c for c in E if c in PLATES)
    try:
        kept, expected, tract = _reference(fs, sizes, ev, ep, sem, scales)
        ref = "# expected for eliminate=%r over inputs %s: %s%s" % (
            E,
            list(kept),
            "no nested reading" if expected is None else np.asarray(expected).tolist(),
            "" if tract else "   (request not exactly eliminable: ValueError is the demanded outcome)",
        )
    except Exception as e:  # noqa
        ref = "# reference unavailable: %r" % (e,)
    return SNIPPET % dict(seed=seed, sizes=sizes, lay=lay, ops=opsrc, declared=declared, body="\n".join(body), ref=ref)
